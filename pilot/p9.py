import itertools, collections
from TexSoup.utils import Buffer, Token
from TexSoup.category import categorize
from TexSoup.tokens import tokenize
def ops(n, i):
    yield ('next',)
    for j in range(0, n-i+1): yield ('forward', j)
    for j in range(0, i+1): yield ('backward', j)
    for j in range(-i, n-i+2): yield ('peek', j)
    for a in range(-i, n-i+2):
        for b in range(a, n-i+3): yield ('peekr', a, b)
    for a in range(0, n+2):
        yield ('idx', a)
        for b in range(a, n+2): yield ('slice', a, b)
    yield ('slice', None, None); 
    for k in range(1,4): yield ('hasNext', k)
    for s in ['a','b','ab','']: yield ('startswith', s); yield ('endswith', s)
    for c in 'abz': yield ('fu', c); yield ('nfu', c)
def model(lst, i, op):
    k=op[0]; n=len(lst)
    if k=='next':
        if i<n: return i+1, ('v', lst[i])
        return i, 'StopIteration'
    if k=='forward': j=op[1]; return i+j, ('v', ''.join(lst[i:i+j]))
    if k=='backward': j=op[1]; return i-j, ('v', ''.join(lst[i-j:i]))
    if k=='peek':
        p=i+op[1]
        return i, ('v', lst[p]) if 0<=p<n else ('v', None)
    if k=='peekr':
        a,b=i+op[1],i+op[2]; return i, ('v', ''.join(lst[max(a,0):max(b,0)]))
    if k=='idx':
        return i, ('v', lst[op[1]]) if op[1]<n else 'IndexError'
    if k=='slice': return i, ('v', ''.join(lst[op[1]:op[2]]))
    if k=='hasNext': return i, ('v', i+op[1]-1<n)
    if k=='startswith': return i, ('v', ''.join(lst[i:i+len(op[1])]).startswith(op[1]))
    if k=='endswith': return i, ('v', ''.join(lst[max(i-len(op[1]),0):i]).endswith(op[1]))
    if k in('fu','nfu'):
        j=i
        while j<n and lst[j]!=op[1]: j+=1
        if k=='fu': return j, ('v', ''.join(lst[i:j]))
        return i, ('v', j-i)
def impl(b, op):
    k=op[0]
    try:
        if k=='next': r=next(b)
        elif k=='forward': r=b.forward(op[1])
        elif k=='backward': r=b.backward(op[1])
        elif k=='peek': r=b.peek(op[1])
        elif k=='peekr': r=b.peek((op[1],op[2]))
        elif k=='idx': r=b[op[1]]
        elif k=='slice': r=b[op[1]:op[2]]
        elif k=='hasNext': r=b.hasNext(op[1])
        elif k=='startswith': r=b.startswith(op[1])
        elif k=='endswith': r=b.endswith(op[1])
        elif k=='fu': r=b.forward_until(lambda x: x==op[1])
        elif k=='nfu': r=b.num_forward_until(lambda x: x==op[1])
        if isinstance(r,str): r=str(r)
        return ('v', r)
    except StopIteration: return 'StopIteration'
    except Exception as e: return type(e).__name__
bad=collections.Counter(); ex={}
tot=0; states=0
for n in range(0,4):
  for tup in itertools.product('ab', repeat=n):
    lst=list(tup); s=''.join(tup)
    seen={(0,0)}; fr=collections.deque([[]]); D=3
    while fr:
        hist=fr.popleft()
        if len(hist)>=D: continue
        # model index
        i=0
        for op in hist: i,_=model(lst,i,op)
        for op in ops(n,i):
            b=Buffer(s)
            for o in hist: impl(b,o)
            r=impl(b,op); i2,rm=model(lst,i,op); tot+=1
            if r!=rm or b.position!=i2:
                key=(op[0], str(r)[:20], str(rm)[:20]); bad[key]+=1; ex.setdefault(key,(s,hist,op,r,rm,b.position,i2)); continue
            ql=len(b._Buffer__queue)
            if (i2,ql) not in seen: seen.add((i2,ql)); fr.append(hist+[op])
    states+=len(seen)
print('trans',tot,'states',states)
for k,v in bad.items(): print(k,v,ex[k])
