import sys, collections, multiprocessing as mp
from g2 import *
from TexSoup import TexSoup
from TexSoup.data import *
from TexSoup.data import TexExpr
from TexSoup.utils import Token, TC
def canon(e):
    if isinstance(e, TexText):
        t=e._text
        if getattr(t,'category',None)==TC.Comment: return ('CM', str(t))
        return ('T', str(t))
    if isinstance(e, BraceGroup): return ('G{', canon_list(e._contents))
    if isinstance(e, BracketGroup): return ('G[', canon_list(e._contents))
    if isinstance(e, TexCmd): return ('C', str(e.name), [canon(a) if isinstance(a,TexExpr) else ('RAW',str(a)) for a in e.args], canon_list(e._contents))
    if isinstance(e, TexNamedEnv): return ('E', str(e.name), [canon(a) for a in e.args], canon_list(e._contents))
    if isinstance(e, TexEnv): return ('M', e.begin, canon_list(e._contents))
    if isinstance(e, str): return ('T', str(e))
    return ('??',repr(e))
def canon_list(cs): return coalesce([canon(c) for c in cs])
def work(args):
    n,lo,hi=args
    fs=forests('top',n)[lo:hi]
    bad=collections.defaultdict(list); cnt=collections.Counter()
    for text,can,_,_ in fs:
        can=coalesce(can)
        try:
            sp=TexSoup(text)
        except Exception as e:
            cnt['exc']+=1; bad['exc:'+type(e).__name__].append(text); continue
        if str(sp)!=text: cnt['rt']+=1; bad['rt'].append((text,str(sp)))
        elif canon_list(sp.expr._contents)!=can: cnt['tree']+=1; bad['tree'].append((text,can,canon_list(sp.expr._contents)))
        else: cnt['ok']+=1
    return cnt,{k:v[:30] for k,v in bad.items()}
if __name__=='__main__':
    N=int(sys.argv[1])
    tot=collections.Counter(); bad=collections.defaultdict(list)
    for n in range(1,N+1):
        L=len(forests('top',n)); step=max(1,L//64+1)
        with mp.Pool(16) as p:
            for c,b in p.imap_unordered(work, [(n,i,i+step) for i in range(0,L,step)]):
                tot.update(c)
                for k,v in b.items(): bad[k]+=v
    print(tot)
    for k,v in bad.items():
        print('==',k,len(v))
        for x in v[:40]: print('   ',repr(x))
