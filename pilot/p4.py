import itertools, collections, time, sys
from TexSoup import TexSoup
alpha = ['\\','{','}','$','&','\n','#','^','_','\x00',' ','a','.','~','%','\x7f','[',']','(',')','*','|']
N=int(sys.argv[1])
res = collections.Counter(); ex = {}
t0=time.time(); n=0
for L in range(0,N+1):
    for tup in itertools.product(alpha, repeat=L):
        s=''.join(tup); n+=1
        for tol in (0,1):
            try:
                str(TexSoup(s, tolerance=tol)); k=('ok',tol)
            except Exception as e:
                k=(type(e).__name__,tol)
                ex.setdefault(k, []).append(s)
            res[k]+=1
print(n, time.time()-t0)
for k,v in sorted(res.items()): print(k, v, [repr(x) for x in ex.get(k,[])[:8]])
