# pilot BFS: TexArgs vs list model
import itertools, collections, copy
from TexSoup.data import TexArgs, BraceGroup, BracketGroup, TexCmd, TexGroup
pool = ['{a}','[b]','{a}']   # duplicates by construction
def mk(s): return TexGroup.parse(s)
def ops(n):
    for s in ['{a}','[b]','{c}']:
        yield ('append_obj', s); yield ('append_str', s)
        for i in range(-n-2, n+3): yield ('insert', i, s)
        yield ('remove_str', s); yield ('remove_obj', s)
    for i in range(-n-1, n+2): yield ('pop', i)
    yield ('reverse',); yield ('clear',); yield ('extend', ('{a}','[b]'))
    for bad in ['{a]', 'x', '[a', '']: yield ('append_str', bad); yield('insert',0,bad)
def apply_model(m, op):
    m=list(m)
    k=op[0]
    try:
        if k in('append_obj','append_str'):
            s=op[1]
            if not ((s.startswith('{') and s.endswith('}')) or (s.startswith('[') and s.endswith(']'))): return m,'TypeError'
            m.append(s)
        elif k=='insert':
            s=op[2]
            if not ((s.startswith('{') and s.endswith('}')) or (s.startswith('[') and s.endswith(']'))): return m,'TypeError'
            m.insert(op[1], s)
        elif k in('remove_str','remove_obj'): m.remove(op[1])
        elif k=='pop': return m, ('ret', m.pop(op[1])) if True else None
        elif k=='reverse': m.reverse()
        elif k=='clear': m.clear()
        elif k=='extend': m.extend(op[1])
        return m, None
    except Exception as e:
        return m, type(e).__name__
def apply_impl(a, op):
    k=op[0]
    try:
        if k=='append_obj': a.append(mk(op[1]))
        elif k=='append_str': a.append(op[1])
        elif k=='insert': a.insert(op[1], op[2])
        elif k=='remove_str': a.remove(op[1])
        elif k=='remove_obj': a.remove(mk(op[1]))
        elif k=='pop': return ('ret', str(a.pop(op[1])))
        elif k=='reverse': a.reverse()
        elif k=='clear': a.clear()
        elif k=='extend': a.extend(list(op[1]))
        return None
    except Exception as e:
        return type(e).__name__
def build(hist):
    a=TexArgs(); 
    for op in hist: apply_impl(a, op)
    return a
seen={(): []}; frontier=collections.deque([[]]); bad=collections.Counter(); badex={}
D=4; trans=0
while frontier:
    hist=frontier.popleft()
    m=seen[tuple(map(str,[]))] if False else None
    # recompute model
    model=[]
    for op in hist: model,_=apply_model(model,op)
    if len(hist)>=D: continue
    for op in ops(len(model)):
        a=build(hist); r=apply_impl(a,op); m2,rm=apply_model(model,op); trans+=1
        obs=[str(x) for x in a]
        owner=TexCmd('t', args=()); 
        ok = obs==m2 and r==rm and str(a)==''.join(m2) and len(a)==len(m2)
        if not ok:
            key=(op[0], r, rm)
            bad[key]+=1; badex.setdefault(key,(hist,op,obs,m2,r,rm))
            continue
        k=(tuple(m2), tuple(map(str,a.all)))
        if k not in seen:
            seen[k]=1; frontier.append(hist+[op])
print('states',len(seen),'trans',trans)
for k,v in bad.items(): print(k,v,badex[k])
