from TexSoup import TexSoup
from TexSoup.data import *
from TexSoup.data import TexExpr
from TexSoup.utils import Token
def walk(e, out):
    if isinstance(e, TexText):
        out.append(('text', e._text.position if hasattr(e._text,'position') else None, str(e._text)))
        return
    if isinstance(e, TexExpr):
        if e.name!='[tex]': out.append((type(e).__name__, e.position, str(e)))
        for a in e.args: 
            walk(a,out)
        for c in e._contents: walk(c,out)
    elif isinstance(e, Token):
        out.append(('token', e.position, str(e)))
    else:
        out.append(('str', None, e))
for s in [r'a \foo[b]{c} $x$ \begin{e}{q} y \item z\end{e} %c'+'\n'+r'\[ w \] \(v\) {g} \\ \% \begin{verbatim} raw \end{verbatim}$$d$$', r'\left( a \big\{ \newcommand{\x}[1]{\begin{a}}', 'a\n\n  b \\x  \n {c}', r'\foo*{a}\def\x{y}\textbf a']:
    sp=TexSoup(s); out=[]; walk(sp.expr,out)
    for k,p,t in out:
        ok = p is not None and s[p:p+len(t)]==t
        print('OK ' if ok else 'BAD', k,p,repr(t), '' if ok else repr(s[p:p+len(t)] if p is not None else None))
    # char_pos_to_line
    bad=[]
    for i,ch in enumerate(s):
        line = s.count('\n',0,i); col = i - (s.rfind('\n',0,i)+1)
        if sp.char_pos_to_line(i)!=(line,col): bad.append((i,sp.char_pos_to_line(i),(line,col)))
    print('clo bad', bad[:5])
    for pat in ['[a-z]+', r'\s+', '.']:
        for m in sp.search_regex(pat):
            if s[m.position:m.position+len(m)]!=str(m): print('REGEX BAD', pat, m.position, repr(str(m))); break
