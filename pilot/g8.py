# run C01/C02 pilot with core alphabet (n<=4) against whichever TexSoup is first on sys.path
import sys, collections, multiprocessing as mp
import g7   # patches g2 to core alphabet
from g3 import *
import TexSoup as TS
if __name__=='__main__':
    print(TS.__file__)
    N=int(sys.argv[1])
    tot=collections.Counter(); bad=collections.defaultdict(list)
    for n in range(1,N+1):
        L=len(forests('top',n)); step=max(1,L//64+1)
        with mp.Pool(16) as p:
            for c,b in p.imap_unordered(work, [(n,i,i+step) for i in range(0,L,step)]):
                tot.update(c)
                for k,v in b.items(): bad[k]+=v
    print(tot)
    for k,v in bad.items():
        print('==',k,len(v))
        for x in sorted(v,key=lambda x: len(str(x)))[:4]: print('   ',repr(x)[:200])
