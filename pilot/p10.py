from dump import *
def trial(src, f, label='', **kw):
    soup = TexSoup(src, **kw)
    try:
        r = f(soup)
        print(label, repr(src), '->', repr(str(soup)), '' if r is None else ('ret', r))
    except Exception as e:
        print(label, repr(src), '-> EXC', type(e).__name__, str(e)[:100])
# C14
trial(r'a\x{b}c', lambda s: setattr(s.x,'name','y'), 'rename cmd')
trial(r'a\begin{e}{q}b\end{e}c', lambda s: setattr(s.e,'name','f'), 'rename env')
trial(r'a$b$c', lambda s: setattr(s.all[1],'name','f'), 'rename math')
trial(r'a\begin{equation}b\end{equation}c', lambda s: setattr(s.equation,'name','align'), 'rename mathenv')
trial(r'a\x{b}c', lambda s: setattr(s.x,'string','Q R'), 'string cmd')
trial(r'a\x[b]c', lambda s: setattr(s.x,'string','Q R'), 'string cmd bracket')
trial(r'a\begin{e}b\end{e}c', lambda s: setattr(s.e,'string','Q R'), 'string env')
trial(r'a\begin{e} b %c'+'\n'+r'\end{e}c', lambda s: setattr(s.e,'string','Q R'), 'string env comment')
trial(r'a\begin{e}{q}b\end{e}c', lambda s: setattr(s.e,'string','Q R'), 'string env w/arg')
trial(r'a\begin{verbatim}b\end{verbatim}c', lambda s: setattr(s.verbatim,'string','Q R'), 'string verbatim')
trial(r'a$b$c', lambda s: setattr(s.all[1],'string','Q R'), 'string math')
trial(r'a{b}c', lambda s: setattr(s.all[1],'string','Q R'), 'string group')
trial(r'a\x[p]{q}{r}c', lambda s: setattr(s.x,'args',s.x.args[::-1]), 'args reverse')
trial(r'a\x[p]{q}{r}c', lambda s: setattr(s.x,'args',s.x.args[:2]), 'args prefix')
trial(r'a\x[p]{q}{r}c', lambda s: setattr(s.x,'args',s.x.args[1:2]), 'args slice')
trial(r'a\begin{e}[p]{q}b\end{e}c', lambda s: setattr(s.e,'args',s.e.args[::-1]), 'env args reverse')
trial(r'\item[p] b', lambda s: setattr(s.item,'args',s.item.args[:0]), 'item args clear')
trial(r'a\x{b}c\x{d}', lambda s: (setattr(s.find_all('x')[1],'name','y'), len(s.find_all('y')), len(s.find_all('x')))[1:], 'rename 2nd')
# C10 contexts
for ctx in ['%s', r'\begin{e}%s\end{e}', r'\x{%s}', r'\x[%s]', r'{%s}', r'\item a%s', r'$a%s$', r'$$%s$$', r'\(%s\)', r'\[%s\]', r'\begin{equation}%s\end{equation}']:
    for pay in ['}', ']', '$', r'\end{e}', r'\begin{e}', r'\item', '{', '[', '\\', '%', r'\)', r'\]', r'\end{equation}']:
        src = ctx % ('%'+pay+'\n')
        try:
            sp=TexSoup(src)
            if str(sp)!=src: print('RT', repr(src))
            base=TexSoup(ctx % ('%c\n'))
            a=repr(dump(sp.expr)).replace(repr('%'+pay),'CM'); b=repr(dump(base.expr)).replace(repr('%c'),'CM')
            import re
            a=re.sub(r', \d+','',a); b=re.sub(r', \d+','',b)
            if a!=b: print('TREE', repr(src), a, b)
        except Exception as e: print('EXC', repr(src), type(e).__name__)
print('C10 done')
