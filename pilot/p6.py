import itertools, collections, time, sys, re, multiprocessing as mp
from TexSoup import TexSoup
from dump import dump
from p5lib import *
alpha = ['\\','{','}','$','\n',' ','a','%','[',']','\\x','\\begin{e}','\\end{e}','\\item','\\begin','\\end', '{e}','\\[','\\]', '\\\\']
N=int(sys.argv[1])
def work(first):
    cnt=collections.Counter(); ex=collections.defaultdict(list)
    for L in range(0,N):
        for tup in itertools.product(alpha, repeat=L):
            s=first+''.join(tup)
            check(s,cnt,ex)
    return cnt, {k:v[:10] for k,v in ex.items()}
if __name__=='__main__':
    t0=time.time()
    with mp.Pool(16) as p:
        out=p.map(work, alpha)
    cnt=collections.Counter(); ex=collections.defaultdict(list)
    for c,e in out:
        cnt.update(c)
        for k,v in e.items(): ex[k]+=v
    print(sum(v for k,v in cnt.items() if isinstance(k,tuple)), time.time()-t0)
    for k,v in sorted(cnt.items(), key=str): print(k, v, ex.get(k,[])[:14])
