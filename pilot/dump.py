from TexSoup import TexSoup
from TexSoup.data import *
from TexSoup.data import TexExpr, TexUnNamedEnv
from TexSoup.utils import Token
def dump(e):
    if isinstance(e, TexText):
        t=e._text
        return ('T', str(t), getattr(t,'category',None) and t.category.name, getattr(t,'position',None))
    if isinstance(e, TexGroup):
        return (type(e).__name__, e.position, [dump(c) for c in e._contents])
    if isinstance(e, TexCmd):
        return ('Cmd', str(e.name), e.position, [dump(a) if isinstance(a,TexExpr) else ('RAW',a) for a in e.args.all], [dump(c) for c in e._contents])
    if isinstance(e, TexEnv):
        return (type(e).__name__, str(e.name), e.position, [dump(a) if isinstance(a,TexExpr) else ('RAW',a) for a in e.args.all], [dump(c) for c in e._contents])
    if isinstance(e, str):
        return ('STR', e, type(e).__name__)
    return ('??', repr(e))
def show(s, **kw):
    try:
        t = TexSoup(s, **kw)
        print(repr(s)); print('   ', dump(t.expr)); 
        if str(t)!=s: print('    RT-DIFF', repr(str(t)))
    except Exception as e:
        print(repr(s), '-> EXC', type(e).__name__, str(e)[:100])
if __name__=='__main__':
    import sys
    for s in sys.argv[1:]:
        show(s.encode().decode('unicode_escape'))
