import sys, collections, multiprocessing as mp
from g2 import *
from TexSoup import TexSoup
from TexSoup.data import *
from TexSoup.data import TexExpr
def body_start(expr):
    # offset of body (after opener + args) relative to expr start
    if isinstance(expr, TexNamedEnv) or (isinstance(expr, TexEnv) and expr.name!='[tex]'):
        return len(expr.begin + str(expr.args))
    if isinstance(expr, TexCmd): return len('\\'+expr.name+str(expr.args))
    return 0
def targets(node, base, out, path=()):
    """yield (path, node, start, end) for all nodes reachable via .all; base = offset of node.expr start"""
    expr=node.expr
    # children from args
    kids=node.all
    k=0
    # args part
    off = base + (len(expr.begin) if isinstance(expr,TexEnv) and expr.name!='[tex]' else (len('\\'+expr.name) if isinstance(expr,TexCmd) else 0))
    for arg in expr.args:
        if isinstance(arg, TexGroup):
            o = off + 1
            for c in arg._contents:
                kid=kids[k]; k+=1
                L=len(str(c)); out.append((path+(k-1,), kid, o, o+L)); 
                if not isinstance(c, TexText) and isinstance(c, TexExpr): targets(kid, o, out, path+(k-1,))
                o+=L
        off += len(str(arg))
    o = off
    for c in expr._contents:
        kid=kids[k]; k+=1
        L=len(str(c)); out.append((path+(k-1,), kid, o, o+L))
        if not isinstance(c, TexText) and isinstance(c, TexExpr): targets(kid, o, out, path+(k-1,))
        o+=L
def node_at(soup, path):
    n=soup
    for i in path: n=n.all[i]
    return n
def work(args):
    n,lo,hi=args
    fs=forests('top',n)[lo:hi]
    bad=collections.defaultdict(list); cnt=collections.Counter()
    for text,can,_,_ in fs:
        sp=TexSoup(text); out=[]
        try: targets(sp,0,out)
        except Exception as e:
            cnt['targets-exc']+=1; bad['targets-exc'].append((text,repr(e))); continue
        for path,kid,a,b in out:
            assert text[a:b]==str(kid), (text,path,a,b,str(kid))
            for opname in ('delete','replace1','replace2'):
                sp2=TexSoup(text); nd=node_at(sp2,path)
                try:
                    if opname=='delete': nd.delete(); exp=text[:a]+text[b:]
                    elif opname=='replace1': nd.replace_with('Z'); exp=text[:a]+'Z'+text[b:]
                    else: nd.replace_with('Z','W'); exp=text[:a]+'ZW'+text[b:]
                    got=str(sp2)
                except Exception as e:
                    got='EXC:'+type(e).__name__+':'+str(e)[:40]; exp=None
                if got==exp: cnt['ok']+=1
                else:
                    # twin?
                    twin = text.count(text[a:b])>1
                    key=opname+(':twin' if twin else ':OTHER')+(':exc' if exp is None else '')
                    cnt[key]+=1; bad[key].append((text,path,(a,b),got,exp))
    return cnt,{k:v[:30] for k,v in bad.items()}
if __name__=='__main__':
    N=int(sys.argv[1])
    tot=collections.Counter(); bad=collections.defaultdict(list)
    for n in range(1,N+1):
        L=len(forests('top',n)); step=max(1,L//64+1)
        with mp.Pool(16) as p:
            for c,b in p.imap_unordered(work, [(n,i,i+step) for i in range(0,L,step)]):
                tot.update(c)
                for k,v in b.items(): bad[k]+=v
    print(tot)
    for k,v in bad.items():
        print('==',k,len(v))
        for x in v[:25]: print('   ',repr(x))
