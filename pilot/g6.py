import sys, collections, re, multiprocessing as mp
from g2 import *
from TexSoup import TexSoup
def closers(text):
    # structural closers: '}' not preceded by backslash-escape, ']' that closes an arg (approx: any ']' after \x[ or \item[), '\end{e}'
    out=[]
    i=0
    while i<len(text):
        if text[i]=='\\' and i+1<len(text) and not text[i+1].isalpha(): i+=2; continue
        if text.startswith('\\end{e}',i): out.append((i,i+7,'end')); i+=7; continue
        if text[i]=='%':
            while i<len(text) and text[i]!='\n': i+=1
            continue
        if text[i]=='}': out.append((i,i+1,'}'))
        i+=1
    return out
def work(args):
    n,lo,hi=args
    fs=forests('top',n)[lo:hi]
    bad=collections.defaultdict(list); cnt=collections.Counter()
    for text,can,_,_ in fs:
        if '$' in text or '\\(' in text or '\\[' in text or 'equation' in text or '\\item' in text: continue
        for a,b,k in closers(text):
            if k=='}' and text[:a].endswith('\\begin{e') : continue
            if k=='}' and text[:a].endswith('\\end{e') : continue
            t=text[:a]+text[b:]
            r=[]
            for tol in (0,1):
                try: r.append(('ok',str(TexSoup(t,tolerance=tol))))
                except Exception as e: r.append((type(e).__name__,))
            key=(k,r[0][0],r[1][0])
            cnt[key]+=1
            if not(r[0][0]!='ok' and r[1][0]=='ok'): bad[key].append((text,t,r))
    return cnt,{k:v[:30] for k,v in bad.items()}
if __name__=='__main__':
    N=int(sys.argv[1])
    tot=collections.Counter(); bad=collections.defaultdict(list)
    for n in range(1,N+1):
        L=len(forests('top',n)); step=max(1,L//64+1)
        with mp.Pool(16) as p:
            for c,b in p.imap_unordered(work, [(n,i,i+step) for i in range(0,L,step)]):
                tot.update(c)
                for k,v in b.items(): bad[k]+=v
    print(tot)
    for k,v in bad.items():
        print('==',k,len(v))
        for x in v[:25]: print('   ',repr(x))
