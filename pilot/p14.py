import itertools, collections
from TexSoup import TexSoup
import TexSoup.tokens as T
from dump import dump
delims=sorted(T.BRACKETS_DELIMITERS.union({'|','.'}))
print(len(delims), delims)
bad=collections.Counter(); ex=collections.defaultdict(list)
MATH=[('$','$'),('$$','$$'),(r'\(',r'\)'),(r'\[',r'\]'),(r'\begin{align*}',r'\end{align*}')]
for pre in T.SIZE_PREFIX:
    for d in delims:
        for (o,c) in MATH:
            for after in ['a',' a','']:
                src='p'+o+'a\\'+pre+d+after+c+'q'
                try:
                    sp=TexSoup(src)
                    if str(sp)!=src: bad['rt']+=1; ex['rt'].append(src); continue
                    m=[n for n in sp.expr._contents if not isinstance(n,str) and n.name not in('text',)][0]
                    names=[str(x.name) for x in m._contents if hasattr(x,'name') and x.name!='text']
                    if names!=[pre+d]: bad['name']+=1; ex['name'].append((src,names))
                    else: bad['ok']+=1
                except Exception as e:
                    bad['exc:'+type(e).__name__]+=1; ex['exc'].append((src,type(e).__name__))
print(bad)
for k,v in ex.items(): print(k, v[:40])
# zero-arg ops followed by brackets; unbalanced brackets
for src in [r'$\cup[a$', r'$\cap(a$', r'$\in[0,1)$', r'$\notin]a$', r'$\infty[$', r'$a)b(c]d[$', r'\[ [0,1) \]', r'$\x{a}[$', r'$\x [$', r'$\cup [a$', r'$\left[ [a$', r'\begin{equation}a]\end{equation}', r'$a$ $b$', r'$a$$$b$$', r'$$a$$$b$', r'\(a\)$b$', r'$a$\(b\)', r'$a$\[b\]', r'\[a\]$$b$$', r'$$a$$\[b\]']:
    try: sp=TexSoup(src); print(repr(src), repr(sp.expr), str(sp)==src)
    except Exception as e: print(repr(src), 'EXC', type(e).__name__)
