from TexSoup import TexSoup
import TexSoup.tokens as T
# F10
s=TexSoup(r'a\x{b}c'); s.insert(0,'Z'); print('text after insert', list(s.text), 'contents', list(s.contents))
try: print(s.all)
except Exception as e: print('all exc', type(e).__name__)
s=TexSoup(r'a\x{b}c'); s.x.replace_with('Z'); print('text after replace', list(s.text), list(s.descendants))
# set-order probe
class Probe(set):
    order=None
    def __iter__(self):
        return iter(self.order(set.__iter__(self)))
orig=T.PUNCTUATION_COMMANDS
for first in ['left.', 'left.|']:
    p=Probe(orig); p.order=lambda it, first=first: sorted(it, key=lambda x:(x!=first, x))
    T.PUNCTUATION_COMMANDS=p
    print(first, repr(TexSoup(r'$\left.|x$').expr))
T.PUNCTUATION_COMMANDS=orig
# innermost frame classification
import traceback, linecache
for src in ['{', '$', r'\begin', r'$\item$', '\\', '\x00', r'\begin{verbatim}', r'\x[']:
    try: TexSoup(src); print(repr(src),'ok')
    except BaseException as e:
        tb=traceback.extract_tb(e.__traceback__)[-1]
        print(repr(src), type(e).__name__, tb.filename.split('/')[-1], tb.name, repr(tb.line))
# input forms
import io, tempfile
src='a\n\\x{b}\n$c$\n'
base=repr(TexSoup(src).expr)
forms={'list':list(src.splitlines(True)),'tuple':tuple(src.splitlines(True)),'gen':(c for c in src),'sio':io.StringIO(src),'chars':list(src),'2chunks':[src[:3],src[3:]], 'emptychunk':[src[:3],'',src[3:]]}
for k,v in forms.items(): print(k, repr(TexSoup(v).expr)==base)
with tempfile.NamedTemporaryFile('w+',suffix='.tex',dir='/tmp/scratch') as f:
    f.write(src); f.flush(); f.seek(0); print('file', repr(TexSoup(f).expr)==base)
