# pilot generator with oracle canon forms + adjacency filters
import functools, itertools, sys, collections
TEXTS = ['a', ' ', '\n', '.', 'a b', '\n\n', '\\%', '\\\\', '(', ']', '[', ' a ', '\\$']
def coalesce(items):
    out=[]
    for it in items:
        if it[0]=='T' and out and out[-1][0]=='T':
            out[-1]=('T', out[-1][1]+it[1])
        else: out.append(it)
    return out
# an element: (text, canon_items(list), first_char_class, last_class, kind)
def atoms(ctx):
    out=[]
    for t in TEXTS:
        if ctx.startswith('math') and t in ('\n\n',): pass
        out.append((t, [('T',t)], 'text'))
    out.append(('%c\n', [('CM','%c'),('T','\n')], 'comment'))
    out.append(('\\x', [('C','x',[],[])], 'cmd0'))
    out.append(('\\y*', [('C','y*',[],[])], 'cmd0'))
    return out
def containers(ctx):
    cs=[]
    def C(name, cctx, render, mk, kind): cs.append((name,cctx,render,mk,kind))
    C('cmd{}','brace', lambda b:'\\x{%s}'%b, lambda c:[('C','x',[('G{',c)],[])], 'cmdargs')
    C('cmd[]','bracket', lambda b:'\\x[%s]'%b, lambda c:[('C','x',[('G[',c)],[])], 'cmdargs')
    C('group','group', lambda b:'{%s}'%b, lambda c:[('G{',c)], 'group')
    C('env','env', lambda b:'\\begin{e}%s\\end{e}'%b, lambda c:[('E','e',[],c)], 'env')
    C('envarg','brace', lambda b:'\\begin{e}{%s}\\end{e}'%b, lambda c:[('E','e',[('G{',c)],[])], 'env')
    if not ctx.startswith('math') and ctx!='bracket':
        C('item','item', lambda b:'\\item%s'%b, lambda c:[('C','item',[],c)], 'item')
        C('itemarg','bracket', lambda b:'\\item[%s]'%b, lambda c:[('C','item',[('G[',c)],[])], 'item')
    C('m$','math$', lambda b:'$%s$'%b, lambda c:[('M','$',c)], 'math$')
    C('m$$','math$$', lambda b:'$$%s$$'%b, lambda c:[('M','$$',c)], 'math')
    C('m(','math(', lambda b:'\\(%s\\)'%b, lambda c:[('M','\\(',c)], 'math')
    C('m[','math[', lambda b:'\\[%s\\]'%b, lambda c:[('M','\\[',c)], 'math')
    C('meq','matheq', lambda b:'\\begin{equation}%s\\end{equation}'%b, lambda c:[('E','equation',[],c)], 'env')
    return cs
import re
ATTACH = re.compile(r'^[ \t]*\n?[ \t]*[\[{]')
def has_item(items):
    for it in items:
        if it[0]=='C':
            if it[1]=='item': return True
            if has_item(it[2]) or has_item(it[3]): return True
        elif it[0]=='E':
            if has_item(it[2]) or has_item(it[3]): return True
        elif it[0] in('G{','G['):
            if has_item(it[1]): return True
        elif it[0]=='M':
            if has_item(it[2]): return True
    return False
def compatible(left, right, ctx):
    lt, lk = left[0], left[2]; rt, rk = right[0], right[2]
    if lk=='text' and rk=='text': return False            # would merge
    if lk=='cmd0' and (rt[0].isalpha() or rt[0]=='*'): return False
    if lk in ('cmd0','cmdargs','item') and ATTACH.match(rt): return False
    if lk=='item' : return False   # handled separately: item swallows the rest
    if lk=='math$' and rt.startswith('$'): return False   # known finding candidate
    if lk=='env' and ATTACH.match(rt): return False
    if ctx=='bracket' and (lk=='text' and ']' in lt or rk=='text' and ']' in rt): return False
    return True
def ok_first_in(container, first, ctx):
    # first child inside a container whose opener is a command-like thing
    name=container
    ft=first[0]
    if name in ('env','item','meq') and ATTACH.match(ft): return False    # would be read as args
    if name=='envarg': return True
    if name=='item' and (ft[0].isalpha() or ft[0]=='*'): return False
    if name=='m$' and ft.startswith('$'): return False
    return True
def ok_last_in(container, last):
    lt=last[0]
    if container=='m$' and lt.endswith('$') and not lt.endswith('\\$'): return False
    return True
@functools.lru_cache(None)
def forests(ctx, n):
    """all forests with exactly n nodes: list of (text, canon_items, firstelem, lastelem)"""
    if n==0: return [('', [], None, None)]
    out=[]
    for k in range(1,n+1):
        for tr in trees(ctx,k):
            for rest in forests(ctx,n-k):
                if rest[2] is not None:
                    if not compatible(tr, rest[2], ctx): continue
                    if tr[2] in ('cmd0','cmdargs','item','env') and ATTACH.match(rest[0]): continue
                if tr[2]=='item' and rest[2] is not None and rest[2][2]!='item': continue
                out.append((tr[0]+rest[0], tr[1]+rest[1], tr, rest[3] if rest[3] is not None else tr))
    return out
@functools.lru_cache(None)
def trees(ctx,k):
    out=[]
    if k==1: out+=atoms(ctx)
    for name,cctx,render,mk,kind in containers(ctx):
        for f in forests(cctx,k-1):
            if f[2] is not None and not ok_first_in(name,f[2],ctx): continue
            if name in ('env','item','meq') and ATTACH.match(f[0]): continue
            if f[3] is not None and not ok_last_in(name,f[3]): continue
            if name=='m$' and f[0]=='' : continue
            if cctx.startswith('math') and has_item(f[1]): continue
            if name in('m$','m$$') and (f[0].startswith('$') or (f[0].endswith('$') and not f[0].endswith('\\$'))): continue
            if cctx=='bracket' and any(it[0]=='T' and ']' in it[1] for it in f[1]): continue
            if cctx=='item' and any(it[0]=='C' and it[1]=='item' for it in f[1]): continue
            if cctx=='math$$' and any(it[0]=='M' and it[1]=='$$' for it in f[1]): continue
            if cctx=='math$' and any(it[0]=='M' and it[1]=='$' for it in f[1]): continue
            if cctx=='bracket' and (']' in f[0] and False): continue
            out.append((render(f[0]), mk(coalesce(f[1])), kind))
    return out
if __name__=='__main__':
    N=int(sys.argv[1])
    for n in range(1,N+1):
        print(n, len(forests('top',n)))
