# C11 pilot
import itertools, collections, multiprocessing as mp, sys, re
from TexSoup import TexSoup
from TexSoup.data import *
SYM=['{','}','[',']','$','$$',r'\x',r'\begin{e}',r'\end{e}',r'\begin{V}',r'\end{other}',r'\item','(','a',' ','\n','%c\n']
NAMES=[('verbatim',()),('lstlisting',()),('Verbatim',()),('foobar',('foobar',)),('e',('e',))]
CTX=['p%sq', r'\begin{f}p%sq\end{f}', r'\begin{f}\begin{g}p%sq\end{g}\end{f}']
ATT=re.compile(r'^[ \t]*\n?[ \t]*[\[{]')
def ok_body(b, name):
    if ATT.match(b): return False
    if b.endswith('\\'): return False
    if '\\end{%s}'%name in b: return False
    # no % before closing \end on its line: last line of body must not contain %
    last=b.rsplit('\n',1)[-1]
    if '%' in last: return False
    return True
def work(tup):
    out=[]
    for name,skip in NAMES:
        b=''.join(tup).replace('V',name)
        if not ok_body(b,name): continue
        for ctx in CTX:
            src=ctx%('\\begin{%s}%s\\end{%s}'%(name,b,name))
            try: sp=TexSoup(src, skip_envs=skip)
            except Exception as e: out.append(('EXC',src,type(e).__name__)); continue
            if str(sp)!=src: out.append(('RT',src,str(sp))); continue
            env=sp.find(name)
            if env is None: out.append(('NOENV',src)); continue
            cs=env.expr._contents
            if not(len(cs)==1 and str(cs[0])==b and len(env.args)==0): out.append(('BODY',src,[str(c) for c in cs])); continue
            for nm in ['x','item','other'] + (['e'] if name!='e' else []):
                if sp.find_all(nm): out.append(('FOUND',src,nm)); break
            out.append(('ok',))
    return out
if __name__=='__main__':
    N=int(sys.argv[1])
    items=[t for L in range(0,N+1) for t in itertools.product(SYM,repeat=L)]
    print(len(items))
    cnt=collections.Counter(); ex=collections.defaultdict(list)
    with mp.Pool(16) as p:
        for out in p.imap_unordered(work, items, chunksize=20):
            for o in out:
                cnt[o[0]]+=1
                if o[0]!='ok': ex[o[0]].append(o)
    print(cnt)
    for k,v in ex.items():
        for o in v[:15]: print(o)
