# C09 pilot: separators x groups x contexts; oracle = maximal attaching prefix
import itertools, collections, multiprocessing as mp, sys
from TexSoup import TexSoup
from TexSoup.data import *
ATT=['',' ','\t','\n',' \n ','  ','\t\n\t']
DET=['\n\n',' \n\n','\n \n','.','%c\n','a']
BRK=['', 'a', '{]}', 'a{b}c', '[', r'\y{a}']
BRC=['', 'a', ']', '[', 'a{b}c', r'\y{a}', '[a]']
CTX={'top':'%s','bracket':r'\z[%s]','item':r'\item p%s'}
TAIL=['','.[t]']
def gen(maxdev):
    for name in ['x','y*']:
        for m in range(0,4):
            for n in range(0,5):
                k=m+n
                kinds=['[']*m+['{']*n
                # separators: choose positions with non-empty separators (<=maxdev)
                for dev in range(0,maxdev+1):
                    for pos in itertools.combinations(range(k),dev):
                        for seps in itertools.product(ATT[1:]+DET, repeat=dev):
                            sep=['']*k
                            for p,s in zip(pos,seps): sep[p]=s
                            yield name,kinds,sep
def render(name,kinds,sep,bodies):
    s='\\'+name
    parts=[]
    for kd,sp,b in zip(kinds,sep,bodies):
        parts.append((sp, ('[%s]' if kd=='[' else '{%s}')%b))
    return s,parts
def expected(name,kinds,sep):
    # number attached = maximal prefix with attaching seps ; R1: 'a' separator directly after name merges into name -> skip
    att=0
    for sp in sep:
        if sp in ATT: att+=1
        else: break
    return att
def check(args):
    name,kinds,sep=args
    out=[]
    if kinds and sep[0]=='a': return out  # R1 (letter after name)
    if name=='y*' and kinds and sep[0]=='a': return out
    bodies=[('a' if kd=='[' else 'a') for kd in kinds]
    head,parts=render(name,kinds,sep,bodies)
    att=expected(name,kinds,sep)
    run=head+''.join(sp+g for sp,g in parts)
    for cname,ctx in CTX.items():
        if cname=='bracket' and any(kd=='[' for kd in kinds[att:]): continue
        for tail in TAIL:
            # tail must not attach: if all attached and tail starts with group... tail starts with '.' or ' a' or ''
            src=ctx%(run+tail)
            try: sp=TexSoup(src)
            except Exception as e:
                out.append(('EXC',src,type(e).__name__)); continue
            node=sp.find(name)
            if node is None: out.append(('NOFIND',src)); continue
            got=[str(a) for a in node.args]
            exp=[g for _,g in parts[:att]]
            if got!=exp: out.append(('ARGS',src,got,exp)); continue
            expser=ctx%(head+''.join(exp)+''.join(s+g for s,g in parts[att:])+tail)
            if str(sp)!=expser: out.append(('SER',src,str(sp),expser))
    return out
if __name__=='__main__':
    items=list(gen(int(sys.argv[1])))
    print(len(items))
    cnt=collections.Counter(); ex=collections.defaultdict(list)
    with mp.Pool(16) as p:
        for out in p.imap_unordered(check, items, chunksize=50):
            cnt['cases']+=1
            for o in out: cnt[o[0]]+=1; ex[o[0]].append(o)
    print(cnt)
    for k,v in ex.items():
        for o in v[:15]: print(o)
