import sys, collections, multiprocessing as mp
from g2 import *
from TexSoup import TexSoup
from TexSoup.data import *
from TexSoup.data import TexExpr
from TexSoup.utils import Token
def names_in(items, acc):
    for it in items:
        if it[0]=='C': acc.append(it[1]); names_in(it[2],acc); names_in(it[3],acc)
        elif it[0]=='E': acc.append(it[1]); names_in(it[2],acc); names_in(it[3],acc)
        elif it[0] in('G{','G['): names_in(it[1],acc)
        elif it[0]=='M': names_in(it[2],acc)
def count_nodes(items):
    # number of non-text nodes (cmd, env, group in contents, math) + non-blank text leaves?  descendants counts contents elements
    n=0
    for it in items:
        if it[0] in('T',): n+= (0 if it[1].isspace() else 1)
        elif it[0]=='CM': n+=1
        elif it[0]=='C': n+=1+sum(count_nodes(a[1]) for a in it[2])+count_nodes(it[3])
        elif it[0]=='E': n+=1+sum(count_nodes(a[1]) for a in it[2])+count_nodes(it[3])
        elif it[0] in('G{','G['): n+=1+count_nodes(it[1])
        elif it[0]=='M': n+=1+count_nodes(it[2])
    return n
def work(args):
    n,lo,hi=args
    fs=forests('top',n)[lo:hi]
    bad=collections.defaultdict(list); cnt=collections.Counter()
    for text,can,_,_ in fs:
        can=coalesce(can)
        sp=TexSoup(text)
        acc=[]; names_in(can,acc); c=collections.Counter(acc)
        for nm in set(acc)|{'zz'}:
            try:
                fa=sp.find_all(nm)
                if len(fa)!=c[nm] or sp.count(nm)!=c[nm] or (sp.find(nm) is None)!=(c[nm]==0): cnt['find-bad']+=1; bad['find-bad'].append((text,nm,c[nm],len(fa)))
                else: cnt['find-ok']+=1
            except Exception as e: cnt['find-exc']+=1; bad['find-exc'].append((text,nm,repr(e)))
        # descendants: parent chain
        try:
            ds=list(sp.descendants)
            for d in ds:
                if isinstance(d, TexNode):
                    p=d; k=0
                    while p.parent is not None and k<50: p=p.parent; k+=1
                    if p is not sp: cnt['parent-bad']+=1; bad['parent-bad'].append((text,str(d)))
            cnt['desc-ok']+=1
        except Exception as e: cnt['desc-exc']+=1; bad['desc-exc'].append((text,repr(e)))
        if ''.join(map(str,sp.all))!=text: cnt['rootall-bad']+=1
    return cnt,{k:v[:30] for k,v in bad.items()}
if __name__=='__main__':
    N=int(sys.argv[1])
    tot=collections.Counter(); bad=collections.defaultdict(list)
    for n in range(1,N+1):
        L=len(forests('top',n)); step=max(1,L//64+1)
        with mp.Pool(16) as p:
            for c,b in p.imap_unordered(work, [(n,i,i+step) for i in range(0,L,step)]):
                tot.update(c)
                for k,v in b.items(): bad[k]+=v
    print(tot)
    for k,v in bad.items():
        print('==',k,len(v))
        for x in v[:25]: print('   ',repr(x))
