import g2, sys
g2.TEXTS[:] = ['a',' ','\n','[']
_atoms=g2.atoms
def atoms(ctx):
    out=[(t,[('T',t)],'text') for t in g2.TEXTS]
    out.append(('%c\n', [('CM','%c'),('T','\n')], 'comment'))
    out.append(('\\x', [('C','x',[],[])], 'cmd0'))
    return out
g2.atoms=atoms
_cont=g2.containers
def containers(ctx):
    return [c for c in _cont(ctx) if c[0] in ('cmd{}','cmd[]','group','env','item','m$','m[','meq')]
g2.containers=containers
for n in range(1,6):
    print(n, len(g2.forests('top',n)))
