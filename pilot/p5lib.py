from TexSoup import TexSoup
from dump import dump
def strip_pos(d):
    if isinstance(d, tuple): return tuple(strip_pos(x) for x in d if not isinstance(x,int))
    if isinstance(d, list): return [strip_pos(x) for x in d]
    return d
def conserv(s,t):
    i=j=0
    while i<len(s) and j<len(t):
        if s[i]==t[j]: i+=1;j+=1
        elif s[i] in ' \t\n':
            k=i
            while k<len(s) and s[k] in ' \t\n': k+=1
            if k<len(s) and s[k] in '{[' : i=k
            else: return False
        else: return False
    return i==len(s) and j==len(t)
def check(s,cnt,ex):
    r={}
    for tol in (0,1):
        try:
            sp=TexSoup(s, tolerance=tol); r[tol]=('ok',str(sp),repr(strip_pos(dump(sp.expr))))
        except Exception as e:
            r[tol]=(type(e).__name__,)
    if r[0][0]=='ok':
        if r[1]!=r[0]: cnt['C07-diff']+=1; ex['C07-diff'].append(s)
        t=r[0][1]
        if not conserv(s,t): cnt['C08']+=1; ex['C08'].append((s,t))
        try:
            sp2=TexSoup(t); t2=str(sp2)
            if t2!=t: cnt['C16-text']+=1; ex['C16-text'].append((s,t,t2))
            elif repr(strip_pos(dump(sp2.expr)))!=r[0][2]: cnt['C16-tree']+=1; ex['C16-tree'].append((s,t))
        except Exception as e:
            cnt['C16-exc']+=1; ex['C16-exc'].append((s,t,type(e).__name__))
    k=(r[0][0],r[1][0])
    cnt[k]+=1
    if k[1] not in ('ok','EOFError') or k[0] in('AssertionError',): ex[k].append(s)
