"""C19 - categorising and tokenising partition the input.  Exhaustive (DESIGN section 5, C19)"""
import itertools

from ..runner import Acc, bind, make_classifier

ID = 'C19'
LEVEL = 'exploration'
ASSUMPTIONS = [
    'lone surrogates are code points too and are included',
    'NUL and DEL are the only characters that may be dropped between tokens',
]
NCP = 0x110000
CHUNK = 0x2000

SINGLE = ['\\', '{', '}', '$', '&', '\n', '\r', '#', '^', '_', '\x00', ' ', '\t', 'a', '.', '*', '~', '%', '\x7f',
          '[', ']', '(', ')', 'é']
MULTI = ['left', 'big', 'langle', 'begin']
KERNEL = ['\\', '{', '$', '%', '\x00', ' ', '\n', 'a', '.', '[', '\x7f', '*']

_S = {}


def setup():
    if not _S:
        bind()
        from TexSoup.category import categorize
        from TexSoup.tokens import tokenize
        from TexSoup.utils import CC, TC
        _S.update(categorize=categorize, tokenize=tokenize, CC=CC, TC=TC, cat={})
    return _S


def check_categorize(s, st):
    """-> None or (sub, expected, observed)"""
    try:
        toks = list(st['categorize'](s))
    except Exception as e:
        return ('categorize-raises', 'one token per character', '%s: %s' % (type(e).__name__, e))
    if len(toks) != len(s):
        return ('categorize-count', len(s), len(toks))
    for i, t in enumerate(toks):
        if str(t) != s[i] or t.position != i:
            return ('categorize-index', [s[i], i], [str(t), t.position])
        if t.category not in st['CC']:
            return ('categorize-category', 'a category code', repr(t.category))
        prev = st['cat'].setdefault(s[i], t.category)
        if prev != t.category:
            return ('categorize-context', 'category of %r is %r in every context' % (s[i], prev), repr(t.category))
    return None


def check_tokenize(s, st):
    try:
        toks = list(st['tokenize'](st['categorize'](s)))
    except Exception as e:
        return ('tokenize-raises', 'a token list', '%s: %s' % (type(e).__name__, str(e)[:100]))
    pos = 0
    for t in toks:
        txt = str(t)
        if txt == '':
            return ('empty-token', 'no token is empty', [[str(x), x.position] for x in toks])
        p = t.position
        if not isinstance(p, int) or p < pos or not s.startswith(txt, p):
            return ('token-offset', 'token text occurs at its recorded offset, offsets increase',
                    [[str(x), x.position] for x in toks])
        gap = s[pos:p]
        if gap.strip('\x00\x7f') != '':
            return ('lost-characters', 'only NUL/DEL may be dropped', [repr(gap), [[str(x), x.position] for x in toks]])
        if t.category not in st['TC'] and t.category not in st['CC']:
            return ('token-category', 'a token code', repr(t.category))
        pos = p + len(txt)
    if s[pos:].strip('\x00\x7f') != '':
        return ('lost-characters', 'only NUL/DEL may be dropped', [repr(s[pos:]), [[str(x), x.position] for x in toks]])
    return None


def check(acc, s, tok=True):
    st = setup()
    bad = check_categorize(s, st)
    if bad is None and tok:
        bad = check_tokenize(s, st)
    if bad is not None:
        acc.violation(bad[0], {'s': s}, bad[1], bad[2], size=len(s))
    else:
        acc.ok(hash(s))


def shards(tier):
    out = [{'kind': 'cp', 'lo': lo, 'hi': min(lo + CHUNK, NCP)} for lo in range(0, NCP, CHUNK)]
    syms = SINGLE + MULTI
    n = 4
    for i in range(len(syms)):
        for j in range(len(syms)):
            out.append({'kind': 'str', 'syms': 'all', 'n': n, 'prefix': [i, j]})
    out.append({'kind': 'str', 'syms': 'all', 'n': 1, 'prefix': []})
    if tier != 'quick':
        for i in range(len(SINGLE)):
            for j in range(len(SINGLE)):
                out.append({'kind': 'str', 'syms': 'single', 'n': 5, 'prefix': [i, j], 'exact': 5})
        for i in range(len(KERNEL)):
            for j in range(len(KERNEL)):
                out.append({'kind': 'str', 'syms': 'kernel', 'n': 7, 'prefix': [i, j], 'exact': (6, 7)})
    return out


def run_shard(shard):
    acc = Acc(make_classifier(ID, SIGNATURES))
    if shard['kind'] == 'cp':
        for cp in range(shard['lo'], shard['hi']):
            c = chr(cp)
            check(acc, c)
            check(acc, 'a' + c + 'a')
            check(acc, '\\' + c)
            check(acc, c + '{')
            acc.extra['code_points'] += 1
        acc.sample({'code points': [shard['lo'], shard['hi']]}) if shard['lo'] == 0 else None
    else:
        syms = {'all': SINGLE + MULTI, 'single': SINGLE, 'kernel': KERNEL}[shard['syms']]
        pre = ''.join(syms[i] for i in shard['prefix'])
        npre = len(shard['prefix'])
        exact = shard.get('exact')
        if isinstance(exact, int):
            exact = (exact,)
        seen = set()
        for rest in range(0, shard['n'] - npre + 1):
            if exact and (npre + rest) not in exact:
                continue
            for t in itertools.product(syms, repeat=rest):
                s = pre + ''.join(t)
                if s in seen:
                    continue
                seen.add(s)
                check(acc, s)
                acc.extra['strings'] += 1
        if shard['prefix'] == [0, 1]:
            acc.sample(pre + 'a$')
    return acc


def replay(case):
    acc = Acc()
    check(acc, case['s'])
    return acc.viol


def snippet(v):
    return ('from TexSoup.category import categorize\nfrom TexSoup.tokens import tokenize\ns = %r\n'
            'print([(str(t), t.position) for t in tokenize(categorize(s))])\n' % v['case']['s'])


SIGNATURES = {}


def coverage(tier, total):
    return {
        'rule': 'all %d code points, each alone and embedded (a?a, \\?, ?{) through categorize and tokenize; all strings of '
                '<= 4 symbols over one representative per character category plus letter runs forming known names '
                '(%d symbols)%s.  distinct = distinct input strings' % (
                    NCP, len(SINGLE + MULTI),
                    '' if tier == 'quick' else '; all strings of exactly 5 single-character symbols (%d); all strings '
                    'of 6-7 kernel symbols (%d)' % (len(SINGLE), len(KERNEL))),
        'code_points': int(total.extra['code_points']),
        'strings': int(total.extra['strings']),
    }
