"""C05 - structural edits are local to the targeted node.  E-GRAM + one edit step (DESIGN section 5, C05)"""
from .. import gram, layers
from ..runner import Acc, make_classifier, seed
from . import egram
from .c03 import gen_index, key_of

ID = 'C05'
LEVEL = 'exploration'
ASSUMPTIONS = [
    'every edit is explored in two orders: at once on the fresh parse, and after every documented view, per-node text and '
    'search of the tree has been looked at once (lazily computed state must not survive the edit)',
    'every edit is applied to a fresh parse; new material is a plain string, a fresh node (copy of a node parsed by a '
    'separate TexSoup call, one parse per use) or a fresh node textually identical to the target',
    'expected text = string splice on the source at the target\'s span (from the generating tree; text leaves by prefix '
    'sums over the serialised siblings) resp. at the offset of the i-th element of the container\'s body list',
    'insert indices 0..len(body)+1 (negative indices are not documented for insert); parent.remove only for children '
    'of the parent\'s body (the API does not look into arguments); replacement lists: a deviation-bounded subset of all '
    'lists of 1..3 items over {string, fresh node, twin}',
]
RLISTS = [['Z'], ['N'], ['W'], ['Z', 'N'], ['N', 'Z'], ['W', 'W'], ['Z', 'N', 'W'], ['N', 'N', 'Z'], ['W', 'Z', 'W']]
RLISTS_QUICK = [['Z'], ['N', 'Z'], ['W', 'Z', 'W']]
NEWTEXT = {'Z': 'Z', 'N': '\\new'}


def fresh(kind, twin_text):
    """-> (object to hand to the API, its text)"""
    if kind == 'Z':
        return 'Z', 'Z'
    text = NEWTEXT['N'] if kind == 'N' else twin_text
    soup, exc = egram.parse(text)
    if exc is not None or not soup.contents:
        return text, text                        # cannot be rebuilt as a node (e.g. bare text): use the string
    c = soup.contents[0]
    T = egram.types()
    if isinstance(c, T['TexNode']):
        return c.copy(), text
    return text, text


def containers_of(soup, T):
    """[(node, expr)] : every expression that has a body list users can insert into"""
    out = [soup]
    for d in soup.descendants:
        if isinstance(d, T['TexNode']):
            out.append(d)
    return out


def targets(soup, T):
    """deterministic list of (kind, node) - 'node' for descendant nodes, 'leaf' for text leaves reached via .all"""
    out = []
    for d in soup.descendants:
        if isinstance(d, T['TexNode']):
            out.append(('node', d, None))
    for c in containers_of(soup, T):
        if isinstance(c.expr, T['TexCmd']) and str(c.expr.name) != 'item':
            continue
        try:
            kids = c.all
        except AssertionError:
            continue
        if c.expr.args:
            continue        # .all mixes argument contents and body: keep to plain bodies for text leaves
        for j, k in enumerate(kids):
            if isinstance(k.expr, T['TexText']):
                out.append(('leaf', k, j))       # j: ordinal in the container's .all (= body list, no arguments here)
    return out


def body_start(node, index, T):
    """offset of the first body character of a container (root -> 0)"""
    if node.parent is None and str(node.expr.name) == '[tex]':
        return 0
    g = index.get(key_of(node))
    return None if g is None else g['bs']


def plan(src, items, tier):
    """-> list of (edit, expected text) computed on one parse of the unedited document"""
    soup, exc = egram.parse(src)
    if exc is not None or str(soup) != src:
        return None
    T = egram.types()
    ann, index, below, top = gen_index(items)
    out = []
    rl = RLISTS_QUICK if tier == 'quick' else RLISTS
    tl = targets(soup, T)
    for k, (kind, node, ordinal) in enumerate(tl):
        if kind == 'node':
            g = index.get(key_of(node))
            if g is None:
                return None
            s, e = g['s'], g['e']
            in_body = any(c is node.expr for c in node.parent.expr._contents)
        else:
            par = node.parent
            bs = body_start(par, index, T)
            if bs is None:
                continue
            # position from the ordinal of the leaf among its siblings - never from the identity of the leaf object
            # (two equal text runs must stay two different targets)
            sibs = par.all
            if ordinal >= len(sibs) or len(sibs) != len(par.expr._contents):
                continue
            s = bs + sum(len(str(x)) for x in sibs[:ordinal])
            e = s + len(str(node))
            in_body = True
        ttext = src[s:e]
        out.append((['delete', k], src[:s] + src[e:]))
        for r in rl:
            new = ''.join(ttext if x == 'W' else NEWTEXT[x] for x in r)
            out.append((['replace_with', k, r], src[:s] + new + src[e:]))
        if tier != 'quick' or kind == 'node':
            out.append((['replace', k, ['Z', 'N']], src[:s] + 'Z' + NEWTEXT['N'] + src[e:]))
        if in_body:
            out.append((['remove', k], src[:s] + src[e:]))
    cl = containers_of(soup, T)
    for k, c in enumerate(cl):
        ex = c.expr
        is_cmd = isinstance(ex, T['TexCmd'])
        if is_cmd and str(ex.name) != 'item':
            # ordinary commands have no body; their argument groups are containers (expression-level API)
            g = index.get(key_of(c))
            if g is None:
                continue
            for j, a in enumerate(g['args']):
                offs = [a['bs']]
                for ch in ex.args[j]._contents:
                    offs.append(offs[-1] + len(str(ch)))
                for i in range(len(offs) + 1):
                    p = offs[min(i, len(offs) - 1)]
                    out.append((['arginsert', k, j, i, ['Z']], src[:p] + 'Z' + src[p:]))
                out.append((['argappend', k, j, ['N']], src[:offs[-1]] + NEWTEXT['N'] + src[offs[-1]:]))
            continue
        bs = body_start(c, index, T)
        if bs is None:
            continue
        offs = [bs]
        for ch in ex._contents:
            offs.append(offs[-1] + len(str(ch)))
        for i in range(len(offs) + 1):
            p = offs[min(i, len(offs) - 1)]
            out.append((['insert', k, i, ['Z']], src[:p] + 'Z' + src[p:]))
            if tier != 'quick':
                out.append((['insert', k, i, ['N']], src[:p] + NEWTEXT['N'] + src[p:]))
            if tier != 'quick' or i in (0, len(offs) - 1):
                out.append((['insert', k, i, ['Z', 'N']], src[:p] + 'Z' + NEWTEXT['N'] + src[p:]))
        out.append((['append', k, ['Z']], src[:offs[-1]] + 'Z' + src[offs[-1]:]))
        out.append((['append', k, ['N', 'Z']], src[:offs[-1]] + NEWTEXT['N'] + 'Z' + src[offs[-1]:]))
    return out


def apply(src, edit, pre=False):
    """perform one edit on a fresh parse -> resulting text.  pre: look at every view of the tree first, so that
    anything the library computes lazily has been computed (and may be stale) by the time of the edit"""
    soup, exc = egram.parse(src)
    if exc is not None:
        raise exc
    T = egram.types()
    if pre:
        egram.observe(soup)
    op = edit[0]
    if op in ('delete', 'replace_with', 'replace', 'remove'):
        kind, node, _ord = targets(soup, T)[edit[1]]
        ttext = str(node)
        if op == 'delete':
            node.delete()
        elif op == 'remove':
            node.parent.remove(node)
        else:
            objs = [fresh(x, ttext)[0] for x in edit[2]]
            if op == 'replace_with':
                node.replace_with(*objs)
            else:
                node.parent.replace(node, *objs)
    else:
        c = containers_of(soup, T)[edit[1]]
        if op == 'insert':
            c.insert(edit[2], *[fresh(x, '')[0] for x in edit[3]])
        elif op == 'append':
            c.append(*[fresh(x, '')[0] for x in edit[2]])
        elif op == 'arginsert':
            objs = [fresh(x, '')[0] for x in edit[4]]
            c.expr.args[edit[2]].insert(edit[3], *[getattr(o, 'expr', o) for o in objs])
        elif op == 'argappend':
            objs = [fresh(x, '')[0] for x in edit[3]]
            c.expr.args[edit[2]].append(*[getattr(o, 'expr', o) for o in objs])
        else:
            raise ValueError(edit)
    return str(soup)


def check_doc(acc, src, items, tier, only=None, only_pre=None):
    pl = plan(src, items, tier)
    if pl is None:
        acc.extra['skipped_not_roundtripping'] += 1
        return
    size = egram.size_of(src, items)
    for edit, want in pl:
        if only is not None and edit != only:
            continue
        for pre in (False, True):
            if only_pre is not None and pre != only_pre:
                continue
            case = {'src': src, 'items': items, 'edit': edit, 'tier': tier, 'pre': pre}
            try:
                got = apply(src, edit, pre)
            except Exception as e:
                acc.violation('edit-raises', case, want, egram.exc_repr(e), size)
                continue
            if got != want:
                acc.violation('not-local' if not pre else 'not-local-after-looking', case, want, got, size)
            else:
                acc.ok(hash((src, repr(edit), pre)), cls=edit[0])
    if acc.evals % 499 == 1 and pl:
        acc.sample({'src': src, 'edit': pl[0][0], 'expected': pl[0][1]})


def plan_name(tier):
    return 'edit-' + tier


def shards(tier):
    return [dict(s, tier=tier) for s in layers.shards(plan_name(tier), ('args', 'sibs'))]


def prepare(tier):
    layers.prepare(plan_name(tier))


def run_shard(shard):
    acc = Acc(make_classifier(ID, SIGNATURES))
    for src, items in layers.iter_docs(shard):
        check_doc(acc, src, items, shard['tier'])
        acc.extra['docs'] += 1
    return acc


def replay(case):
    acc = Acc()
    check_doc(acc, case['src'], gram.tuplify(case['items']), case.get('tier', 'quick'), only=case['edit'],
              only_pre=case.get('pre'))
    return acc.viol


def snippet(v):
    c = v['case']
    return ('from TexSoup import TexSoup\nsoup = TexSoup(%r)\n# edit %r (targets are numbered in the order of soup.descendants; '
            'Z = the string "Z", N = copy of TexSoup("\\\\new").contents[0], W = fresh twin of the target)\n'
            '# expected %r\n# observed %r\n' % (c['src'], c['edit'], v['expected'], v['observed']))


SIGNATURES = {}


def coverage(tier, total):
    return {
        'rule': 'every L_wf document of (%s) , of the argument layer and of the sibling layer (4-8 siblings); every non-root node and every text leaf of a plain '
                'body as target of delete / replace_with (lists %r) / parent.replace / parent.remove; every container (root, '
                'environments, math, groups, items; argument groups of commands through the expression API) x every '
                'insertion index 0..len+1 and append; each on a fresh parse.  distinct = distinct (document, edit)' % (
                    ', '.join('%s <= %d nodes' % p for p in layers.PLAN[plan_name(tier)]),
                    RLISTS_QUICK if tier == 'quick' else RLISTS),
        'documents': int(total.extra['docs']),
        'skipped_not_roundtripping': int(total.extra['skipped_not_roundtripping']),
        'edits_by_kind': dict(total.hist),
        'representatives': gram.Names(seed()).describe(),
    }
