"""C07 - tolerant mode is a conservative extension that only inserts closers.
E-STR + closer-deletion faults on L_wf documents (DESIGN section 5, C07)"""
import re

from .. import gram, layers, strings
from ..canon import DIAG, align_c07, canon, classify_exception, types
from ..runner import Acc, make_classifier, seed
from . import egram
from .c08 import admissible

ID = 'C07'
LEVEL = 'fault_enumeration'
ASSUMPTIONS = [
    'part 1 compares str(soup), repr(soup.expr), the canonical tree and the positions of all descendants',
    'part 2 ranges over L_wf documents without math, verbatim or list regions and without a bare ] in text; every '
    'structural closer (closing } of a group or argument, closing ] of an argument, \\end{name}, the closing brace of '
    '\\begin{name} and of \\end{name}) is deleted, one at a time',
    'part 3 (only closers inserted) is judged under the side conditions of C08 (no NUL/DEL, fixed-signature commands '
    'with brace-delimited arguments), and modulo the whitespace removal C08 permits',
]
BEGIN = re.compile(r'\\begin[ \t]*[\n\r]?[ \t]*\{([^{}]*)\}')


def fingerprint(soup):
    T = types()
    pos = []
    for d in soup.descendants:
        pos.append((getattr(d, 'position', None), str(d)))
    return (str(soup), repr(soup.expr), canon(soup), tuple(pos))


def part3(acc, src, soup, origin):
    if not admissible(src):
        acc.extra['part3_skipped_side_condition'] += 1
        return True
    out = str(soup)
    # closers that may be inserted: } ] and \end{n} for every n that names a \begin{n} of the input - read off the
    # output as well, because an unterminated \begin{n is completed by an inserted }
    names = set(BEGIN.findall(src)) | set(BEGIN.findall(out))
    # names with braces in them (\begin{\x{a}}): take them from the named environments of the tolerant tree; the
    # alignment still demands that every character of their \begin{name} comes from the input
    T = types()
    stack = [soup.expr]
    while stack:
        e = stack.pop()
        if isinstance(e, T['TexNamedEnv']):
            names.add(str(e.name))
        if isinstance(e, T['TexExpr']) and not isinstance(e, T['TexText']):
            for a in e.args:
                if isinstance(a, T['TexExpr']):
                    stack.append(a)
            stack.extend(c for c in e._contents if isinstance(c, T['TexExpr']))
    names = sorted(names)
    if out == src or align_c07(src, out, names):
        acc.extra['part3_checked'] += 1
        return True
    acc.violation('only-closers', {'src': src, 'origin': origin, 'part': 3}, 'input + inserted }, ], \\end{n} only',
                  out, size=len(src))
    return False


def check_string(acc, src, origin):
    """parts 1 and 3 on an arbitrary string"""
    s0, e0 = egram.parse(src, tolerance=0)
    s1, e1 = egram.parse(src, tolerance=1)
    case = {'src': src, 'origin': origin, 'part': 1}
    if e0 is None:
        if e1 is not None:
            acc.violation('tolerant-fails', case, 'tolerant parsing succeeds like strict', egram.exc_repr(e1), size=len(src))
            return
        f0, f1 = fingerprint(s0), fingerprint(s1)
        if f0 != f1:
            acc.violation('tolerant-differs', case, [f0[0], f0[1]], [f1[0], f1[1]], size=len(src))
            return
        acc.ok(hash(src), cls='strict-ok')
    else:
        if e1 is None:
            if part3(acc, src, s1, origin):
                acc.ok(hash(src), cls='repaired')
        else:
            acc.ok(hash(src), cls='both-fail', nontrivial=False)
    if acc.evals % 9973 == 1:
        acc.sample({'src': src, 'strict': 'ok' if e0 is None else type(e0).__name__,
                    'tolerant': str(s1) if e1 is None else type(e1).__name__})


def eligible(items):
    """no math, verbatim, list regions; no bare ] in text"""
    for d in gram.walk_all(gram.layout(items)):
        n = d['n']
        if n[0] == 'M':
            return False
        if n[0] == 'E' and (n[1] in ('equation', 'align*', 'verbatim', 'lstlisting', 'Verbatim', 'listing', 'verbatimtab')):
            return False
        if n[0] == 'C' and n[1] == 'item':
            return False
        if n[0] == 'T' and ']' in n[1]:
            return False
    return True


def closers(items):
    """(kind, start, end) of every structural closer"""
    out = []
    for d in gram.walk_all(gram.layout(items)):
        k = d['n'][0]
        if k in ('G{', 'G['):
            out.append((k, d['be'], d['be'] + 1))
        elif k == 'E':
            out.append(('E', d['be'], d['e']))
            out.append(('E}', d['e'] - 1, d['e']))                      # the brace of \end{name}
            b = d['name_spans'][0][1]
            out.append(('B}', b, b + 1))                                # the brace of \begin{name}
    return out


def check_doc(acc, src, items):
    check_string(acc, src, 'doc')
    if not eligible(items):
        acc.extra['part2_ineligible'] += 1
        return
    for kind, s, e in closers(items):
        if kind == 'G[' and ']' in src[e:]:
            # brackets do not nest in text: a later ] closes this argument instead and the document stays
            # well-formed (the lost ] merely turns a later [ into text) - not a fault
            acc.extra['part2_skipped_rebalanced'] += 1
            continue
        bad = src[:s] + src[e:]
        case = {'src': bad, 'origin': 'closer-deleted', 'part': 2, 'from': src, 'closer': [kind, s, e]}
        s0, e0 = egram.parse(bad, tolerance=0)
        if e0 is None:
            acc.violation('strict-accepts', case, 'strict parsing reports an error', str(s0), size=len(src))
            continue
        name, explicit = classify_exception(e0)
        if name not in DIAG or not explicit:
            acc.violation('strict-not-diagnostic', case, 'a diagnostic error', egram.exc_repr(e0), size=len(src))
            continue
        s1, e1 = egram.parse(bad, tolerance=1)
        if e1 is not None:
            acc.violation('tolerant-fails', case, 'tolerant parsing succeeds', egram.exc_repr(e1), size=len(src))
            continue
        if part3(acc, bad, s1, 'closer-deleted'):
            acc.ok(hash(bad), cls='closer-deleted:' + kind)
    # truncations feed part 3
    for i in range(1, len(src)):
        t = src[:i]
        s1, e1 = egram.parse(t, tolerance=1)
        if e1 is None and part3(acc, t, s1, 'truncated'):
            acc.ok(hash(t), cls='truncated-repaired')


# environment names of which one is a prefix of the other, closers cut inside the name
NAME_SYMS = ['\\begin{e}', '\\begin{ee}', '\\begin{e*}', '\\end{e}', '\\end{ee}', '\\end{e*}', '\\end{e', '\\end{ee', 'a', '}']


def name_strings(first):
    """every string of <= 4 NAME_SYMS starting with symbol number `first` that opens at least one environment"""
    import itertools
    for k in range(0, 4):
        for t in itertools.product(NAME_SYMS, repeat=k):
            s = NAME_SYMS[first] + ''.join(t)
            if '\\begin' in s:
                yield s


def shards(tier):
    out = [dict(s, kind='sigma') for s in strings.shards('quick' if tier == 'quick' else 'thorough')]
    plan = 'small-quick' if tier == 'quick' else 'small-thorough'
    out += [dict(s, kind='doc') for s in layers.shards(plan, ())]
    out += [{'kind': 'names', 'first': i} for i in range(len(NAME_SYMS))]
    return out


def prepare(tier):
    layers.prepare('small-quick' if tier == 'quick' else 'small-thorough')


def run_shard(shard):
    acc = Acc(make_classifier(ID, SIGNATURES))
    if shard['kind'] == 'sigma':
        for s in strings.iter_strings(shard):
            check_string(acc, s, 'sigma-' + shard['alpha'])
    elif shard['kind'] == 'names':
        for s in name_strings(shard['first']):
            check_string(acc, s, 'environment names')
    else:
        for text, items in layers.iter_docs(shard):
            check_doc(acc, text, items)
    return acc


def replay(case):
    acc = Acc()
    if case.get('part') == 2:
        # re-run the deletion on the original document and keep the matching record
        src = case['from']
        kind, s, e = case['closer']
        bad = src[:s] + src[e:]
        s0, e0 = egram.parse(bad, tolerance=0)
        if e0 is None:
            return [{'sub': 'strict-accepts', 'expected': 'strict parsing reports an error', 'observed': str(s0)}]
        name, explicit = classify_exception(e0)
        if name not in DIAG or not explicit:
            return [{'sub': 'strict-not-diagnostic', 'expected': 'a diagnostic error', 'observed': egram.exc_repr(e0)}]
        s1, e1 = egram.parse(bad, tolerance=1)
        if e1 is not None:
            return [{'sub': 'tolerant-fails', 'expected': 'tolerant parsing succeeds', 'observed': egram.exc_repr(e1)}]
        part3(acc, bad, s1, 'closer-deleted')
        return acc.viol
    if case.get('part') == 3:
        s1, e1 = egram.parse(case['src'], tolerance=1)
        if e1 is None:
            part3(acc, case['src'], s1, case.get('origin', ''))
        return acc.viol
    check_string(acc, case['src'], case.get('origin', ''))
    return acc.viol


def snippet(v):
    c = v['case']
    return ('from TexSoup import TexSoup\nsrc = %r\nfor t in (0, 1):\n    try:\n        s = TexSoup(src, tolerance=t); '
            'print(t, repr(str(s)), repr(s.expr))\n    except Exception as e:\n        print(t, type(e).__name__, e)\n'
            % c['src'])


SIGNATURES = {}


def coverage(tier, total):
    plan = 'quick' if tier == 'quick' else 'thorough'
    lp = 'small-quick' if tier == 'quick' else 'small-thorough'
    return {
        'rule': 'part 1+3: all strings of <= n symbols over the token-kind alphabets (%s), all strings of <= 4 symbols over ten '
                '\\begin/\\end symbols whose names are prefixes of one another or cut short, and all L_wf documents of (%s), '
                'both tolerance modes; part 2: every structural closer of every eligible document deleted; every '
                'truncation point (part 3).  distinct = distinct inputs whose strict or tolerant parse succeeds' % (
                    ', '.join('%s n<=%d' % p for p in strings.PLAN[plan]),
                    ', '.join('%s <= %d nodes' % p for p in layers.PLAN[lp])),
        'part2_ineligible_docs': int(total.extra['part2_ineligible']),
        'part3_alignments': int(total.extra['part3_checked']),
        'part3_skipped_side_condition': int(total.extra['part3_skipped_side_condition']),
        'representatives': gram.Names(seed()).describe(),
    }
