"""C12 - math regions are delimited correctly and tolerate unbalanced brackets.
E-GRAM sub-grammar (DESIGN section 5, C12)"""
import itertools

from .. import gram
from ..canon import canon
from ..runner import Acc, make_classifier, seed
from . import egram

ID = 'C12'
LEVEL = 'exploration'
ASSUMPTIONS = [
    'brackets / parentheses directly after an ordinary or sizing command are outside the statement and not generated',
    'the 22 delimiters and 17 named math environments are listed in the harness, not read from TexSoup\'s tables',
    'prefix-conflict inputs such as \\left.| belong to C17',
]
MATH_ENVS = ['align', 'align*', 'alignat', 'array', 'displaymath', 'eqnarray', 'eqnarray*', 'equation', 'equation*',
             'flalign', 'flalign*', 'gather', 'gather*', 'math', 'multline', 'multline*', 'split']
PAIRS = ['$', '$$', '\\(', '\\[']
DELIMS = ['(', ')', '<', '>', '[', ']', '{', '}', '\\{', '\\}', '.', '|', '\\langle', '\\rangle', '\\lfloor', '\\rfloor',
          '\\lceil', '\\rceil', '\\ulcorner', '\\urcorner', '\\lbrack', '\\rbrack']
PREFIXES = ['left', 'right', 'big', 'Big', 'bigg', 'Bigg']
OPERATORS = ['cup', 'cap', 'in', 'notin', 'infty']


def N():
    return gram.Names(seed())


def region(kind, body_items):
    if kind in PAIRS:
        return ('M', kind, body_items)
    return ('E', kind, (), body_items)


def elements(n):
    """(text, items, class) - class drives the adjacency filter"""
    return [
        (n.a, (('T', n.a),), 'text'),
        (n.sp, (('T', n.sp),), 'text'),
        ('\\' + n.x, (('C', n.x, (), ()),), 'cmd0'),
        ('\\%s{%s}' % (n.x, n.a), (('C', n.x, (('G{', (('T', n.a),)),), ()),), 'cmd'),
        ('{%s}' % n.a, (('G{', (('T', n.a),)),), 'group'),
        ('\\$', (('T', '\\$'),), 'text'),
        ('\\\\', (('T', '\\\\'),), 'text'),
        ('(', (('T', '('),), 'bracket'),
        (')', (('T', ')'),), 'bracket'),
        ('[', (('T', '['),), 'bracket'),
        (']', (('T', ']'),), 'bracket'),
        ('\\left(', (('C', 'left(', (), ()),), 'sizing'),
        ('\\cup[', (('C', 'cup', (), ()), ('T', '[')), 'opbr'),
        ('\\in(', (('C', 'in', (), ()), ('T', '(')), 'opbr'),
    ]


def ok_seq(seq, kind):
    for i, a in enumerate(seq):
        if a[2] in ('cmd0', 'cmd', 'sizing'):
            rest = ''.join(e[0] for e in seq[i + 1:])
            if a[2] == 'cmd0' and rest[:1].isalpha():
                return False                    # R1
            j = i + 1
            while j < len(seq) and seq[j][0].isspace():
                j += 1
            if j < len(seq) and seq[j][2] in ('bracket', 'group'):
                # a bracket/group in argument position (directly or after blanks) is outside the statement (R2) ...
                if a[2] == 'cmd' and j > i + 1 and seq[j][2] == 'bracket':
                    continue                    # ... except a bracket separated by blanks from a command that already
                    #                               has its brace argument: no bracket group can attach there (C09)
                return False
    return True


def body_sequences(E, maxlen):
    for L in range(0, maxlen + 1):
        for seq in itertools.product(E, repeat=L):
            if ok_seq(seq, None):
                yield seq


def contexts(n):
    y, e = n.y, n.e
    return {
        'top': lambda it: (('T', n.a),) + it + (('T', n.o),),
        'env': lambda it: (('E', e, (), (('T', n.a),) + it + (('T', n.o),)),),
        'group': lambda it: (('G{', (('T', n.a),) + it),),
        'brace': lambda it: (('C', y, (('G{', it + (('T', n.o),)),), ()),),
        'bracket': lambda it: (('C', y, (('G[', (('T', n.a),) + it),), ()),),
        'item': lambda it: (('C', 'item', (), (('T', ' '),) + it + (('T', n.o),)),),
        'linebreak': lambda it: (('T', n.a + '\\\\'),) + it + (('T', '\\\\' + n.o),),
    }


def count_cmd(items, name):
    c = 0
    for d in gram.walk_all(gram.layout(items)):
        if d['n'][0] == 'C' and d['n'][1] == name:
            c += 1
    return c


def check_items(acc, case, items, names=()):
    src = gram.render(items)
    c = dict(case, src=src)
    size = len(src)
    soup, exc = egram.parse(src)
    if exc is not None:
        acc.violation('parse', c, 'parsing succeeds', egram.exc_repr(exc), size)
        return
    want = gram.coalesce(items)
    got = canon(soup)
    if got != want:
        acc.violation('math-tree', c, want, got, size)
        return
    if str(soup) != src:
        acc.violation('roundtrip', c, src, str(soup), size)
        return
    for nm in names:
        q = ('\\' + nm) if ('{' in nm or '[' in nm) else nm      # names with a bracket are queried as full expressions
        try:
            cnt = soup.count(q)
        except Exception as e:
            acc.violation('search-raises', dict(c, query=nm), count_cmd(items, nm), egram.exc_repr(e), size)
            return
        if cnt != count_cmd(items, nm):
            acc.violation('math-search', dict(c, query=nm), count_cmd(items, nm), cnt, size)
            return
    acc.ok(hash(src), cls=case['layer'])
    if acc.evals % 2003 == 1:
        acc.sample(src)


def build(case):
    """-> (items, names to search) or None"""
    n = N()
    layer = case['layer']
    if layer == 'body':
        E = elements(n)
        seq = [E[i] for i in case['seq']]
        kind = case['kind']
        text = ''.join(e[0] for e in seq)
        if kind == '$' and not text:
            return None
        if kind in ('$', '$$') and (text.startswith('$') or (text.endswith('$') and not text.endswith('\\$'))):
            return None
        if kind not in PAIRS and gram.ATTACH.match(text):
            return None                         # would be read as options of \begin{env} (R2)
        body = tuple(itertools.chain.from_iterable(e[1] for e in seq))
        items = contexts(n)[case['ctx']]((region(kind, body),))
        return items, (n.x, 'left(', 'cup', 'in')
    if layer == 'sizing':
        name = case['prefix'] + case['delim']
        follow = case['follow']
        if follow == 'letter' and case['delim'].startswith('\\') and case['delim'][1:].isalpha():
            return None
        ft = {'letter': n.b, 'blank': ' ' + n.b, 'closer': ''}[follow]
        body = (('T', n.a), ('C', name, (), ())) + ((('T', ft),) if ft else ())
        items = (region(case['kind'], body),)
        return items, (name,)
    if layer == 'operator':
        body = (('T', n.a), ('C', case['op'], (), ()), ('T', case['bracket'] + n.b))
        return (region(case['kind'], body),), (case['op'],)
    if layer == 'pair':
        def one(k, letter):
            return region(k, (('T', letter),))
        mid = (('T', case['sep']),) if case['sep'] else ()
        return (one(case['left'], n.a),) + mid + (one(case['right'], n.b),), ()
    raise ValueError(layer)


def check_case(acc, case):
    b = build(case)
    if b is None:
        return
    check_items(acc, case, b[0], b[1])


def cases(tier):
    n = N()
    E = elements(n)
    deep = 4 if tier == 'quick' else 5
    shallow = 2 if tier == 'quick' else 4
    idx = {id(e): i for i, e in enumerate(E)}
    main = PAIRS + ['equation']
    for kind in PAIRS + MATH_ENVS:
        L = deep if kind in main else shallow
        for seq in body_sequences(E, L):
            yield {'layer': 'body', 'kind': kind, 'ctx': 'top', 'seq': [idx[id(e)] for e in seq]}
    for ctx in list(contexts(n))[1:]:
        for kind in PAIRS + ['equation', 'gather*']:
            for seq in body_sequences(E, 1 if tier == 'quick' else 2):
                yield {'layer': 'body', 'kind': kind, 'ctx': ctx, 'seq': [idx[id(e)] for e in seq]}
    for p in PREFIXES:
        for d in DELIMS:
            for follow in ('letter', 'blank', 'closer'):
                for kind in (['$', '\\[', 'equation'] if tier == 'quick' else PAIRS + ['equation', 'align*']):
                    yield {'layer': 'sizing', 'kind': kind, 'prefix': p, 'delim': d, 'follow': follow}
    for op in OPERATORS:
        for br in ('[', '(', ']', ')'):
            for kind in PAIRS + ['equation']:
                yield {'layer': 'operator', 'kind': kind, 'op': op, 'bracket': br}
    for left in PAIRS + ['equation']:
        for right in PAIRS + ['equation']:
            for sep in ('', ' '):
                yield {'layer': 'pair', 'left': left, 'right': right, 'sep': sep}


NPART = 32


def shards(tier):
    return [{'tier': tier, 'i': i} for i in range(NPART)]


def run_shard(shard):
    acc = Acc(make_classifier(ID, SIGNATURES))
    for i, case in enumerate(cases(shard['tier'])):
        if i % NPART == shard['i']:
            check_case(acc, case)
    return acc


def replay(case):
    acc = Acc()
    check_case(acc, {k: v for k, v in case.items() if k != 'src' and k != 'query'})
    return acc.viol


def snippet(v):
    return 'from TexSoup import TexSoup\nsoup = TexSoup(%r)\nprint(repr(soup.expr))\n# expected: %r\n' % (
        v['case']['src'], v['expected'])


def sig_dollar_adjacent(v):
    """F9: an inline $..$ region whose closing $ is directly followed by another $ -> EOFError"""
    c = v['case']
    return (c.get('layer') == 'pair' and c.get('left') == '$' and c.get('sep') == '' and c.get('right') in ('$', '$$')
            and v['sub'] == 'parse' and str(v['observed']).startswith('EOFError'))


SIGNATURES = {'dollar-adjacent-eof': sig_dollar_adjacent}


def coverage(tier, total):
    n = N()
    return {
        'rule': 'the four delimiter pairs and all 17 named math environments; bodies = sequences of <= %d (<= %d for the less '
                'common names) elements over %r; every sizing prefix x every delimiter (%d x %d) followed by a letter / blank / '
                'the closer; the five zero-argument operators followed by each bracket; six enclosing contexts; every ordered '
                'pair of region kinds adjacent with nothing / a blank between.  distinct = distinct sources' % (
                    4 if tier == 'quick' else 5, 2 if tier == 'quick' else 4, [e[0] for e in elements(n)],
                    len(PREFIXES), len(DELIMS)),
        'layers': dict(total.hist),
        'representatives': n.describe(),
    }
