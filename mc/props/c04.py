"""C04 - navigation views of a node are mutually consistent.  (E-GRAM; DESIGN section 5, C04)"""
import collections

from .. import gram, layers
from ..runner import Acc, make_classifier, seed
from . import egram
from .c03 import gen_index, key_of

ID = 'C04'
LEVEL = 'exploration'
ASSUMPTIONS = [
    'the complete content list is expr.all, as the statement says; the wrapper node.all is exercised at the root only',
    'text leaves are compared modulo segmentation: order and concatenation with whitespace removed, every leaf non-blank',
    'ground truth for order and completeness of children / descendants is the generating tree',
]


SLICES = (slice(None), slice(1, None), slice(None, -1), slice(None, None, -1), slice(0, 2), slice(1, 3), slice(None, None, 2))


def strip_ws(s):
    return ''.join(s.split())


def gen_text_below(d):
    """text and comment leaves below an annotated generator node, in document order"""
    out = []
    k = d['n'][0]
    if k in ('T', 'CM'):
        return [d['n'][1]]
    if k in ('C', 'E'):
        for a in d['args']:
            for c in a['body']:
                out.extend(gen_text_below(c))
    for c in d.get('body', ()):
        out.extend(gen_text_below(c))
    return out


def gen_children(d):
    kids = []
    k = d['n'][0]
    if k in ('C', 'E'):
        for a in d['args']:
            kids.extend(a['body'])
    kids.extend(d.get('body', ()))
    return kids


def closure(node, T):
    """transitive closure of `contents`, computed by the harness"""
    out = []
    for c in node.contents:
        out.append(c)
    for c in node.contents:
        if isinstance(c, T['TexNode']):
            out.extend(closure(c, T))
    return out


def ident(x, T):
    if isinstance(x, T['TexNode']):
        return ('N', id(x.expr))
    return ('T', getattr(x, 'position', None), str(x))


def check_node(n, gkids, gtexts, gbelow_count, root, depth_bound, T):
    """-> None or (sub, expected, observed)"""
    e = n.expr
    # 1. contents == expr.all minus whitespace-only text
    want = []
    for c in e.all:
        raw = c._text if isinstance(c, T['TexText']) else c
        if isinstance(raw, str) and raw.isspace():
            continue
        want.append(c)
    got = n.contents
    if len(got) != len(want):
        return ('contents', [str(w) for w in want], [str(g) for g in got])
    for w, g in zip(want, got):
        if isinstance(g, T['TexNode']):
            if g.expr is not w:
                return ('contents', [str(x) for x in want], [str(x) for x in got])
        elif str(g) != str(w):
            return ('contents', [str(x) for x in want], [str(x) for x in got])
    # 2. children == contents without text; iteration and indexing follow contents
    kids = n.children
    wk = [g for g in got if isinstance(g, T['TexNode'])]
    if [id(k.expr) for k in kids] != [id(k.expr) for k in wk]:
        return ('children', [str(x) for x in wk], [str(x) for x in kids])
    it = list(n)
    if [ident(x, T) for x in it] != [ident(x, T) for x in got]:
        return ('iter', [str(x) for x in got], [str(x) for x in it])
    for i in range(len(got)):
        if ident(n[i], T) != ident(got[i], T):
            return ('index', str(got[i]), str(n[i]))
        if got and ident(n[i - len(got)], T) != ident(got[i], T):
            return ('index-negative', str(got[i]), str(n[i - len(got)]))
    for sl in SLICES:
        part = n[sl]
        if not isinstance(part, list) or [ident(x, T) for x in part] != [ident(x, T) for x in got[sl]]:
            return ('slice', [str(x) for x in got[sl]], [str(x) for x in part] if isinstance(part, list) else repr(part))
        for x, w in zip(part, got[sl]):
            if type(x) is not type(w):
                return ('slice-type', type(w).__name__, type(x).__name__)
            if isinstance(w, T['TexNode']) and (x.parent is None or x.parent.expr is not e):
                return ('parent-slice', str(n)[:40], None if x.parent is None else str(x.parent)[:40])
    # ground truth: children are the generator's non-text children, in order
    gk = [(c['s'], gram.text_of(c['n'])) for c in gkids if c['n'][0] not in ('T', 'CM')]
    if [key_of(k) for k in kids] != gk:
        return ('children-vs-source', gk, [list(key_of(k)) for k in kids])
    # 3. descendants == transitive closure of contents, every node once
    desc = list(n.descendants)
    clo = closure(n, T)
    if collections.Counter(ident(x, T) for x in desc) != collections.Counter(ident(x, T) for x in clo):
        return ('descendants', sorted(str(x) for x in clo), sorted(str(x) for x in desc))
    nodes = [x for x in desc if isinstance(x, T['TexNode'])]
    if len(set(id(x.expr) for x in nodes)) != len(nodes) or len(nodes) != gbelow_count:
        return ('descendants-count', gbelow_count, len(nodes))
    # 4. text == non-blank text leaves in document order
    txt = n.text
    if any((not isinstance(t, str)) or t.isspace() or t == '' for t in txt):
        return ('text-blank', 'only non-blank text leaves', [str(t) for t in txt])
    if strip_ws(''.join(str(t) for t in txt)) != strip_ws(''.join(gtexts)):
        return ('text', strip_ws(''.join(gtexts)), strip_ws(''.join(str(t) for t in txt)))
    # 6. parent links
    for view, seq in (('contents', got), ('children', kids), ('iteration', it),
                      ('indexing', [n[i] for i in range(len(got))])):
        for x in seq:
            if isinstance(x, T['TexNode']) and (x.parent is None or x.parent.expr is not e):
                return ('parent-' + view, str(n)[:40], None if x.parent is None else str(x.parent)[:40])
    for x in nodes:
        p, steps = x, 0
        while p.parent is not None and steps <= depth_bound + 2:
            p = p.parent
            steps += 1
        if p.expr is not root.expr and p.expr is not n.expr:
            return ('parent-chain', 'ends at the root', str(p)[:40])
        # walking up from a descendant must pass through n
        q, ok = x, False
        for _ in range(depth_bound + 3):
            if q.parent is None:
                break
            q = q.parent
            if q.expr is e:
                ok = True
                break
        if not ok:
            return ('parent-chain', 'passes through the node it was reached from', str(x)[:40])
    return None


def shared_object(root, T):
    seen = set()
    stack = [root]
    while stack:
        e = stack.pop()
        if isinstance(e, str) and not isinstance(e, T['TexText']):
            continue                      # plain strings / tokens are immutable values
        if id(e) in seen:
            return '%s %r occurs twice' % (type(e).__name__, str(e)[:40])
        seen.add(id(e))
        if isinstance(e, T['TexText']):
            continue
        stack.extend(getattr(e, 'args', ()))
        stack.extend(getattr(e, '_contents', ()))
    return None


def check_doc(acc, src, items):
    soup, exc = egram.parse(src)
    case = egram.case_of(src, items)
    size = egram.size_of(src, items)
    if exc is not None:
        acc.violation('parse', case, 'parsing succeeds', egram.exc_repr(exc), size)
        return
    T = egram.types()
    ann, index, below, top = gen_index(items)
    depth_bound = gram.count_nodes(items)
    # the expression graph is a tree: no expression object (node, argument group, text leaf) sits in two places -
    # otherwise parent links, positions and identity-based edits of one occurrence would hit the other
    shared = shared_object(soup.expr, T)
    if shared is not None:
        acc.violation('shared-object', dict(case, node=None), 'every expression object occurs once in the tree',
                      shared, size)
        return
    # root
    gtexts = []
    for d in ann:
        gtexts.extend(gen_text_below(d))
    bad = check_node(soup, ann, gtexts, len(top), soup, depth_bound, T)
    if bad is None:
        if ''.join(map(str, soup.expr.all)) != src:
            bad = ('root-all', src, ''.join(map(str, soup.expr.all)))
        else:
            try:
                whole = ''.join(map(str, soup.all))
                if whole != src:
                    bad = ('root-node-all', src, whole)
                elif any(x.parent is None or x.parent.expr is not soup.expr for x in soup.all):
                    bad = ('parent-all', 'parent of root.all items is the root', 'other')
            except AssertionError:
                pass        # node.all is not defined where a plain string sits in the content list (DESIGN N1)
    if bad is not None:
        acc.violation(bad[0], dict(case, node=None), bad[1], bad[2], size)
        return
    nn = 1
    for d in soup.descendants:
        if not isinstance(d, T['TexNode']):
            continue
        g = index.get(key_of(d))
        if g is None:
            acc.violation('node-unknown', case, 'every tree node corresponds to a generator construct',
                          list(key_of(d)), size)
            return
        nn += 1
        bad = check_node(d, gen_children(g), gen_text_below(g), len(below[id(g)]), soup, depth_bound, T)
        if bad is not None:
            acc.violation(bad[0], dict(case, node=list(key_of(d))), bad[1], bad[2], size)
            return
        if d.parent is None:
            acc.violation('parent-descendants', dict(case, node=list(key_of(d))), 'a parent', None, size)
            return
    acc.ok(hash(src), nontrivial=bool(top))
    acc.extra['nodes'] += nn
    if acc.evals % 997 == 1:
        acc.sample({'src': src, 'nodes_checked': nn})


def plan(tier):
    return 'nav4-' + tier


def shards(tier):
    return layers.shards(plan(tier), ('order', 'args', 'char', 'nest10', 'sibs', 'long'))


def prepare(tier):
    layers.prepare(plan(tier))


def run_shard(shard):
    acc = Acc(make_classifier(ID, SIGNATURES))
    for src, items in layers.iter_docs(shard):
        check_doc(acc, src, items)
        acc.hist[shard['layer'] + ':' + shard.get('alpha', '') + str(shard.get('n', ''))] += 1
    return acc


def replay(case):
    acc = Acc()
    check_doc(acc, case['src'], gram.tuplify(case['items']))
    return acc.viol


def snippet(v):
    c = v['case']
    return ('from TexSoup import TexSoup\nsoup = TexSoup(%r)\n# node (offset, text): %r (None = the document)\n'
            '# relation violated: %s\n# expected: %r\n# observed: %r\n'
            % (c['src'], c.get('node'), v['sub'], v['expected'], v['observed']))


SIGNATURES = {}


def coverage(tier, total):
    return {
        'rule': 'every node of every L_wf document of: %s, of the order, argument and character layers, of the sibling layer (4-8 siblings), of six long documents and of the nest layer to depth 10; the expression graph is a tree; contents vs expr.all, children, iteration, indexing, '
                'descendants vs closure and generator node count, text vs generator leaves, root concatenation, parent '
                'links and chains' % ', '.join('%s <= %d nodes' % p for p in layers.PLAN[plan(tier)]),
        'layers': dict(total.hist),
        'nodes_checked': int(total.extra['nodes']),
        'representatives': gram.Names(seed()).describe(),
    }
