"""C06 - parsing is total: it terminates with a tree or a diagnostic error.
E-STR + fault enumeration (DESIGN section 5, C06)."""
import signal
import sys
import time

from .. import gram, layers, strings
from ..canon import DIAG, classify_exception, types
from ..runner import Acc, bind, make_classifier, seed

ID = 'C06'
LEVEL = 'fault_enumeration'
ASSUMPTIONS = [
    'a diagnostic is an EOFError / TypeError / AssertionError raised by an explicit raise or assert statement inside '
    'the TexSoup package; necessary conditions from the statement: AssertionError needs \\begin or \\item in the input, '
    'EOFError needs \\begin, $, \\( or \\[',
    'hang detection: progress monitor on the tokenizer driver (every returned token is non-empty and advances the '
    'cursor; at most len+1 tokens) plus a CPU-time watchdog of %d s per parse (process CPU time, so machine load cannot turn a slow parse into a hang), re-run with twice the limit before reporting',
    'the interpreter recursion limit is the default (1000) while parsing',
]
WATCHDOG_S = 10
ASSUMPTIONS[1] = ASSUMPTIONS[1] % WATCHDOG_S


class Hang(BaseException):
    pass


class NoProgress(BaseException):
    pass


_STATE = {}


def setup():
    if _STATE:
        return _STATE
    ts = bind()
    import TexSoup.tokens as tk
    orig = getattr(tk, 'next_token', None)
    _STATE['TexSoup'] = ts.TexSoup
    _STATE['monitor'] = orig is not None
    _STATE['budget'] = [0, 0]

    if orig is not None:
        def monitored(text, prev=None):
            b = _STATE['budget']
            p0 = text.position
            tok = orig(text, prev=prev) if prev is not None else orig(text)
            if tok is not None:
                b[0] += 1
                if len(tok) == 0 or text.position <= p0:
                    raise NoProgress('token %r at %d: cursor %d -> %d' % (str(tok), b[0], p0, text.position))
                if b[0] > b[1]:
                    raise NoProgress('more than len+1 tokens')
            return tok
        tk.next_token = monitored

    def on_alarm(signum, frame):
        raise Hang()
    signal.signal(signal.SIGVTALRM, on_alarm)
    return _STATE


def run_parse(src, tol, limit=WATCHDOG_S):
    st = setup()
    st['budget'][0] = 0
    st['budget'][1] = len(src) + 1
    signal.setitimer(signal.ITIMER_VIRTUAL, limit)
    try:
        r = st['TexSoup'](src, tolerance=tol)
        return ('ok', None, r)
    except Hang:
        return ('hang', 'no result within %d s of CPU time' % limit, None)
    except NoProgress as e:
        return ('noprogress', str(e), None)
    except BaseException as e:
        if isinstance(e, (KeyboardInterrupt, SystemExit)):
            raise
        return ('exc', e, None)
    finally:
        signal.setitimer(signal.ITIMER_VIRTUAL, 0)


HANG_TEXT = 'no result within %d s of CPU time (after a first attempt limited to %d s)' % (WATCHDOG_S * 2, WATCHDOG_S)


def judge(src, tol, confirm=True):
    """-> (outcome class, violation or None).  A hang is reported only after a second attempt with twice the CPU
    budget also fails (confirm=True, exploration).  A replay re-checks with the first budget only: an input that
    needed more than 2x the budget reliably needs more than 1x, so borderline timings cannot make the replay flaky."""
    kind, info, r = run_parse(src, tol)
    if kind == 'hang':
        if confirm:
            kind, info, r = run_parse(src, tol, WATCHDOG_S * 2)     # confirm before reporting
        if kind == 'hang':
            return 'hang', ('hang', 'terminates', HANG_TEXT)
    if kind == 'ok':
        T = types()
        if not isinstance(r, T['TexNode']):
            return 'ok', ('result-type', 'TexNode', type(r).__name__)
        return 'ok', None
    if kind == 'noprogress':
        return 'noprogress', ('tokenizer-progress', 'every round of the tokenizer consumes at least one character', info)
    e = info
    name, explicit = classify_exception(e)
    msg = '%s: %s' % (name, str(e)[:120])
    if name not in DIAG:
        return 'leak:' + name, ('internal-exception', 'a tree or EOFError/TypeError/AssertionError', msg)
    if not explicit:
        return 'implicit:' + name, ('implicit-' + name, 'a deliberate diagnostic (raise/assert in TexSoup)', msg)
    if name == 'AssertionError' and not ('\\begin' in src or '\\item' in src):
        return 'diag:' + name, ('assertion-without-begin-or-item', 'AssertionError only for \\begin without name / \\item in math', msg)
    if name == 'EOFError' and not any(t in src for t in ('\\begin', '$', '\\(', '\\[')):
        return 'diag:' + name, ('eof-without-opener', 'EOFError only for an unclosed environment or math region', msg)
    return 'diag:' + name, None


def check_string(acc, src, origin):
    for tol in (0, 1):
        cls, bad = judge(src, tol)
        if bad is not None:
            acc.violation(bad[0], {'src': src, 'tolerance': tol, 'origin': origin}, bad[1], bad[2],
                          size=len(src) * 10 + tol)
        else:
            acc.ok(hash((src, tol, cls)), cls=cls)
    if acc.evals % 9973 == 1:
        acc.sample({'src': src, 'origin': origin})


def corpus_shards(tier):
    plan = 'fault-quick' if tier == 'quick' else 'fault-thorough'
    out = [dict(s, kind='neigh', tier=tier) for s in layers.shards(plan, ())]
    for si, (path, text) in enumerate(layers.sample_texts()):
        k = 48 if len(text) > 300 else 2
        for i in range(k):
            out.append({'kind': 'sample', 'sample': si, 'i': i, 'k': k, 'insertions': tier != 'quick'})
    return out


def shards(tier):
    out = [dict(s, kind='sigma') for s in strings.shards('quick' if tier == 'quick' else 'deep')]
    out += corpus_shards(tier)
    nk = len(strings.nest_kinds(gram.Names(seed())))
    for a in range(nk):
        for b in range(nk):
            out.append({'kind': 'nest', 'a': a, 'b': b, 'step': 5 if tier == 'quick' else 1})
    return out


def prepare(tier):
    layers.prepare('fault-quick' if tier == 'quick' else 'fault-thorough')


def run_shard(shard):
    setup()
    acc = Acc(make_classifier(ID, SIGNATURES))
    kind = shard['kind']
    if kind == 'sigma':
        for s in strings.iter_strings(shard):
            check_string(acc, s, 'sigma-' + shard['alpha'])
            acc.extra['sigma_strings'] += 1
    elif kind == 'neigh':
        for text, items in layers.iter_docs(shard):
            if shard['tier'] == 'quick' and shard['alpha'] == 'full' and shard['n'] >= 2:
                it = strings.neighbourhood(text, insertions=False, transpositions=False)
            else:
                it = strings.neighbourhood(text)
            for k, s in it:
                check_string(acc, s, k)
                acc.extra['neighbours'] += 1
            if shard['n'] <= 1 or (shard['alpha'] == 'core' and shard['n'] <= 2) or shard['tier'] != 'quick':
                # token-level fillers (a comment line, a blank line, an empty group ...) at every position
                for i in range(len(text) + 1):
                    for tok in strings.HOSTILE_TOKENS:
                        check_string(acc, text[:i] + tok + text[i:], 'insert-token')
                        acc.extra['neighbours'] += 1
            acc.extra['corpus_docs'] += 1
    elif kind == 'sample':
        text = layers.sample_texts()[shard['sample']][1]
        idx = 0
        for k, s in strings.neighbourhood(text, insertions=shard['insertions'], transpositions=shard['insertions'],
                                          hostile=['\\', '{', '}', '$', '%']):
            idx += 1
            if idx % shard['k'] != shard['i']:
                continue
            check_string(acc, s, 'sample-' + k)
            acc.extra['neighbours'] += 1
    elif kind == 'nest':
        for label, pieces in strings.nests(40, shard['a'], shard['b']):
            cuts = [len(pieces), 40, 41] + list(range(1, len(pieces), shard['step']))
            for cut in sorted(set(cuts)):
                check_string(acc, ''.join(pieces[:cut]), 'nest ' + label)
                if acc.nviol and any(v['sub'] == 'hang' for v in acc.viol):
                    break       # one confirmed hang per nest family is enough (each costs the watchdog time)
            acc.extra['nests'] += 1
    return acc


def replay(case):
    setup()
    cls, bad = judge(case['src'], case['tolerance'], confirm=False)
    if bad is None:
        return []
    return [{'sub': bad[0], 'expected': bad[1], 'observed': bad[2]}]


def snippet(v):
    c = v['case']
    return 'from TexSoup import TexSoup\nTexSoup(%r, tolerance=%d)   # %s\n' % (c['src'], c['tolerance'], v['observed'])


SIGNATURES = {}


def coverage(tier, total):
    return {
        'rule': 'all strings of <= n symbols over the token-kind alphabets (%s), NUL/DEL/CR included; every prefix, '
                'single-character deletion, adjacent transposition and insertion of one of %d hostile characters at every '
                'position of every L_wf document of the small layers and of tests/samples; 40-deep nests of 11 container '
                'kinds (%s), closed and cut at every token boundary; each x tolerance 0/1.  distinct = distinct '
                '(input, tolerance, outcome class)' % (
                    ', '.join('%s n<=%d (%d symbols)' % (a, n, len(strings.sigma(a))) for a, n in strings.PLAN['quick' if tier == 'quick' else 'deep']),
                    len(strings.HOSTILE), 'all ordered pairs alternating; cut every 5th boundary' if tier == 'quick' else 'all ordered pairs alternating; cut at every boundary'),
        'sigma_strings': int(total.extra['sigma_strings']),
        'neighbours': int(total.extra['neighbours']),
        'corpus_docs': int(total.extra['corpus_docs']),
        'nests': int(total.extra['nests']),
        'progress_monitor': 'available' if setup()['monitor'] else 'unavailable (tokens.next_token not found)',
        'representatives': gram.Names(seed()).describe(),
    }
