"""C08 - serialisation conserves the characters of any parseable input.  E-STR (DESIGN section 5, C08)"""
import re

from .. import gram, layers, strings
from ..canon import align_c08
from ..runner import Acc, make_classifier, seed
from . import egram

ID = 'C08'
LEVEL = 'exploration'
ASSUMPTIONS = [
    'side conditions checked lexically: no NUL/DEL; \\textbf, \\section, \\label only followed (after optional '
    'groups) by a brace group; \\def only followed by a lexically simple brace group and then a second brace group',
    'the alignment is slightly more permissive than the statement: a whitespace run of the merged-spacer shape may '
    'vanish before any { or [, whether or not that group is an argument (attachment itself is C09)',
    'only strict-mode successes are judged (failures are C06)',
]
FIXED = re.compile(r'\\(def|textbf|section|label)(?![A-Za-z*])')
SPACER = re.compile(r'[ \t]*[\n\r]?[ \t]*')
DEF_FIRST = re.compile(r'[ \t]*[\n\r]?[ \t]*\{(\\[A-Za-z]+)?[^{}\\%$\[\]\x00-\x1f]*\}')
SPECIAL_NAMES = {'begin', 'end', 'item', 'def', 'textbf', 'section', 'label', 'verb', 'left', 'right', 'big', 'Big',
                 'bigg', 'Bigg', 'newcommand', 'renewcommand', 'providecommand', 'newenvironment'}


def brace_follows(src, i, optional):
    """after a fixed-signature command name ending at i: [spacer] [balanced bracket group]? [spacer] '{'"""
    i = SPACER.match(src, i).end()
    if optional and i < len(src) and src[i] == '[':
        # conservative: the optional group may not contain further brackets (whether an inner '[' nests depends
        # on whether it follows a command - that is C09's business, not a lexical question)
        j = src.find(']', i)
        if j < 0 or '[' in src[i + 1:j] or '%' in src[i + 1:j] or '\\' in src[i + 1:j]:
            return False        # (a backslash: the ] found may belong to a \] token, which does not close the group)
        i = SPACER.match(src, j + 1).end()
    return i < len(src) and src[i] == '{'


def admissible(src):
    if '\x00' in src or '\x7f' in src:
        return False
    for m in FIXED.finditer(src):
        if m.group(1) == 'def':
            # both mandatory arguments brace-delimited; the first one is required to be lexically simple (plain
            # characters, optionally led by one ordinary control word) so that its end can be found without parsing
            g = DEF_FIRST.match(src, m.end())
            if g is None or (g.group(1) or '')[1:] in SPECIAL_NAMES:
                return False
            i = SPACER.match(src, g.end()).end()
            if not (i < len(src) and src[i] == '{'):
                return False
            continue
        if not brace_follows(src, m.end(), m.group(1) == 'section'):
            return False
    return True


def check_string(acc, src, origin):
    if not admissible(src):
        acc.extra['skipped_side_condition'] += 1
        return
    soup, exc = egram.parse(src)
    if exc is not None:
        acc.extra['strict_failures'] += 1
        return
    try:
        out = str(soup)
    except Exception as e:      # noqa: serialising a parsed tree must not fail
        acc.violation('serialise-raises', {'src': src, 'origin': origin}, src, egram.exc_repr(e), size=len(src))
        return
    if out == src:
        acc.ok(hash(src), cls='identical')
    elif align_c08(src, out):
        acc.ok(hash(src), cls='spacer-dropped')
    else:
        acc.violation('conserve', {'src': src, 'origin': origin}, src, out, size=len(src))
    if acc.evals % 9973 == 1:
        acc.sample({'src': src, 'out': out})


def shards(tier):
    out = [{'kind': 'mixed'}]
    out += [dict(s, kind='sigma') for s in strings.shards('mid' if tier == 'quick' else 'thorough')]
    plan = 'fault-quick' if tier == 'quick' else 'fault-thorough'
    out += [dict(s, kind='neigh', tier=tier) for s in layers.shards(plan, ())]
    out += [dict(s, kind='ws', tier=tier) for s in layers.shards(plan, ('args',))]
    return out


def prepare(tier):
    layers.prepare('fault-quick' if tier == 'quick' else 'fault-thorough')


WS = [' ', '\n', ' \n ', '\t', '\n\n']


def ws_variants(text):
    """whitespace inserted before every { and [ and after every } and ] (one position at a time)"""
    for i, ch in enumerate(text):
        if ch in '{[':
            for w in WS:
                yield text[:i] + w + text[i:]


def run_shard(shard):
    acc = Acc(make_classifier(ID, SIGNATURES))
    kind = shard['kind']
    if kind == 'mixed':
        for s in layers.mixed_arg_strings():
            check_string(acc, s, 'mixed-order arguments')
        for s in layers.env_name_strings():
            check_string(acc, s, 'environment names')
    elif kind == 'sigma':
        for s in strings.iter_strings(shard):
            check_string(acc, s, 'sigma-' + shard['alpha'])
    elif kind == 'neigh':
        for text, items in layers.iter_docs(shard):
            if shard['tier'] == 'quick' and shard['alpha'] == 'full' and shard['n'] >= 2:
                it = strings.neighbourhood(text, insertions=False, transpositions=False)
            else:
                it = strings.neighbourhood(text)
            check_string(acc, text, 'doc')
            for k, s in it:
                check_string(acc, s, k)
    elif kind == 'ws':
        for text, items in layers.iter_docs(shard):
            for s in ws_variants(text):
                check_string(acc, s, 'ws-variant')
    return acc


def replay(case):
    acc = Acc()
    check_string(acc, case['src'], case.get('origin', ''))
    return acc.viol


def snippet(v):
    return 'from TexSoup import TexSoup\nsrc = %r\nprint(repr(str(TexSoup(src))))   # observed %r\n' % (
        v['case']['src'], v['observed'])


FAMILIES = "; plus three fixed families of plain strings: a command with <= 3 groups in every order and 13 tails (also the four fixed-signature commands with 0-2 surplus groups), environments and commands whose names lie far from the name pool (brackets, blanks, digits, punctuation, the library's own internal names, near-misses of built-in names) in 8 + 6 shapes, verbatim-like bodies quoting a near-miss closer"
SIGNATURES = {}


def coverage(tier, total):
    plan = 'mid' if tier == 'quick' else 'thorough'
    return {
        'rule': 'all strings of <= n symbols over the token-kind alphabets (%s) that satisfy the side conditions and '
                'parse in strict mode; the 1-edit neighbourhoods and whitespace-before-group variants of the L_wf '
                'documents of the small layers%s; order-preserving alignment of input and output.  distinct = distinct '
                'parseable inputs' % (', '.join('%s n<=%d' % p for p in strings.PLAN[plan]), FAMILIES),
        'skipped_side_condition': int(total.extra['skipped_side_condition']),
        'strict_failures_not_judged': int(total.extra['strict_failures']),
        'representatives': gram.Names(seed()).describe(),
    }
