"""C11 - verbatim-like environments are opaque.  E-GRAM sub-grammar x configuration (DESIGN section 5, C11)"""
import itertools
import re

from .. import gram
from ..canon import canon
from ..runner import Acc, make_classifier, seed
from . import egram

ID = 'C11'
LEVEL = 'exploration'
ASSUMPTIONS = [
    'bodies satisfy the provisos of the statement (R8): no leading (blank|LF)* followed by { or [, no trailing backslash, a '
    '% is always followed by a line break before the closing \\end; bodies containing \\end{<same name>} are used only in '
    'the first-\\end layer',
    'context: top level, inside one and inside two named environments (the only places the statement covers)',
    'configuration differential: an unlisted user name must parse exactly like the same source with another unknown name',
]
BUILTIN = ['verbatim', 'lstlisting', 'verbatimtab', 'Verbatim', 'listing']
USER = ['foobar', 'myverb', 'myverb*', 'align']
LEAD = re.compile(r'[ \t\n\r]*[\[{]')


def N():
    return gram.Names(seed())


def body_symbols(n, name):
    other = 'zother'
    return ['{', '}', '[', ']', '$', '$$', '\\' + n.x, '\\begin{%s}' % n.e, '\\end{%s}' % n.e, '\\begin{%s}' % name,
            '\\end{%s}' % other, '\\end{%sx}' % name, '\\item', '(', n.a, n.sp, '\n', '%c\n', '%c\r']


def bodies(n, name, maxlen):
    syms = body_symbols(n, name)
    seen = set()
    for L in range(0, maxlen + 1):
        for t in itertools.product(syms, repeat=L):
            b = ''.join(t)
            if b in seen or LEAD.match(b) or b.endswith('\\'):
                continue
            seen.add(b)
            yield b


def wrap(n, depth, inner):
    """inner items placed between benign text, inside `depth` named environments"""
    items = (('T', n.a),) + inner + (('T', n.b),)
    names = [n.e, 'wrap']
    for d in range(depth):
        items = (('T', n.o), ('E', names[d], (), items), ('T', n.o))
    return items


def check_opaque(acc, case):
    n = N()
    name, body, depth = case['name'], case['body'], case['depth']
    skip = tuple(case['skip_envs'])
    env = ('E', name, (), (('T', body),))
    items = wrap(n, depth, (env,))
    src = gram.render(items)
    c = dict(case, src=src)
    size = len(body) * 10 + depth + len(skip)
    soup, exc = egram.parse(src, skip_envs=skip)
    if exc is not None:
        acc.violation('parse', c, 'an opaque body can never cause a parse error', egram.exc_repr(exc), size)
        return
    want = gram.coalesce(items)
    got = canon(soup)
    if got != want:
        acc.violation('not-opaque', c, want, got, size)
        return
    if str(soup) != src:
        acc.violation('roundtrip', c, src, str(soup), size)
        return
    node = soup.find(name)
    if node is None or [str(x) for x in node.expr.all] not in ([body], [] if body == '' else [body], ['']):
        acc.violation('body', c, [body], None if node is None else [str(x) for x in node.expr.all], size)
        return
    for nm in (n.x, 'item', 'zother') + ((n.e,) if depth == 0 and name != n.e else ()):
        if soup.count(nm) != 0:
            acc.violation('body-searchable', dict(c, query=nm), 0, soup.count(nm), size)
            return
    acc.ok(hash((src, skip)), cls='opaque')
    if acc.evals % 2003 == 1:
        acc.sample({'src': src, 'skip_envs': list(skip)})


def rename(s, old, new):
    return s.replace('{%s}' % old, '{%s}' % new)


def check_ordinary(acc, case):
    """a user name that is NOT listed behaves like any unknown ordinary environment name"""
    n = N()
    name, body, depth = case['name'], case['body'], case['depth']
    skip = tuple(case['skip_envs'])
    inner_src = '\\begin{%s}%s\\end{%s}' % (name, body, name)
    src = gram.render(wrap(n, depth, (('T', '@@'),))).replace('@@', inner_src)
    ref_name = 'qqq*' if name.endswith('*') else 'qqq'
    ref = rename(src, name, ref_name)
    c = dict(case, src=src, ordinary=True)
    size = len(body) * 10 + depth + len(skip)
    egram.parse(src, skip_envs=skip + (name,))        # history: the same name was opaque in an earlier call
    s1, e1 = egram.parse(src, skip_envs=skip)
    s2, e2 = egram.parse(ref, skip_envs=skip)
    if (e1 is None) != (e2 is None) or (e1 is not None and type(e1) is not type(e2)):
        acc.violation('unlisted-name-not-ordinary', c, 'same outcome as with the name %s: %s' % (
            ref_name, 'parses' if e2 is None else type(e2).__name__),
            'parses' if e1 is None else egram.exc_repr(e1), size)
        return
    if e1 is None:
        a = repr(canon(s1))
        b = repr(canon(s2)).replace(ref_name, name)
        if a != b:
            acc.violation('unlisted-name-not-ordinary', c, b, a, size)
            return
    acc.ok(hash((src, skip, 'ord')), cls='ordinary:' + ('ok' if e1 is None else type(e1).__name__))


def check_first_end(acc, case):
    n = N()
    name, b1, b2 = case['name'], case['body'], case['second']
    skip = tuple(case['skip_envs'])
    src = n.a + '\\begin{%s}%s\\end{%s}%s\\end{%s}' % (name, b1, name, b2, name)
    c = dict(case, src=src, first_end=True)
    soup, exc = egram.parse(src, skip_envs=skip)
    if exc is not None:
        acc.violation('first-end-parse', c, 'parses', egram.exc_repr(exc), len(src))
        return
    node = soup.find(name)
    got = None if node is None else ''.join(str(x) for x in node.expr.all)
    if got != b1 or str(soup) != src:
        acc.violation('first-end', c, b1, got, len(src))
        return
    acc.ok(hash((src, skip, 'fe')), cls='first-end')


def cases(tier):
    n = N()
    deep = 3 if tier == 'quick' else 4
    shallow = 2 if tier == 'quick' else 3
    # opaque: (name, skip_envs) pairs
    main = [('verbatim', ()), ('foobar', ('foobar',)), ('myverb*', ('myverb*',))]
    rest = [(b, ()) for b in BUILTIN[1:]] + [(b, ('foobar',)) for b in BUILTIN] + [(b, ('foobar', 'myverb')) for b in BUILTIN[:2]]
    rest += [('myverb', ('myverb',)), ('myverb', ('foobar', 'myverb')), ('foobar', ('myverb', 'foobar')), (n.e, (n.e,)),
             ('align', ('align',)), ('equation*', ('foobar', 'equation*')),
             ('myverb*', ('foobar', 'myverb*'))]
    for name, skip in main:
        for b in bodies(n, name, deep):
            if '\\end{%s}' % name in b:
                continue
            yield ('opaque', {'name': name, 'skip_envs': list(skip), 'body': b, 'depth': 0})
    for name, skip in main + rest:
        for depth in (0, 1, 2):
            if depth == 0 and (name, skip) in main:
                continue
            if depth > 0 and name == n.e:
                continue
            for b in bodies(n, name, shallow):
                if '\\end{%s}' % name in b:
                    continue
                yield ('opaque', {'name': name, 'skip_envs': list(skip), 'body': b, 'depth': depth})
    # ordinary: user names not listed
    for name, skip in [('foobar', ()), ('foobar', ('myverb',)), ('myverb*', ()), ('myverb*', ('myverb',)), ('myverb', ('myverb*',))]:
        for depth in (0, 1):
            for b in bodies(n, name, shallow):
                yield ('ordinary', {'name': name, 'skip_envs': list(skip), 'body': b, 'depth': depth})
    # first \end closes
    for name, skip in [('verbatim', ()), ('lstlisting', ('foobar',)), ('foobar', ('foobar',)), ('myverb*', ('myverb*',))]:
        for b1 in bodies(n, name, shallow):
            for b2 in (n.a, ' ' + n.a + ' ', ''):
                yield ('first-end', {'name': name, 'skip_envs': list(skip), 'body': b1, 'second': b2})


NPART = 32


def shards(tier):
    return [{'tier': tier, 'i': i} for i in range(NPART)]


def run_one(acc, kind, case):
    if kind == 'opaque':
        check_opaque(acc, case)
    elif kind == 'ordinary':
        check_ordinary(acc, case)
    else:
        check_first_end(acc, case)


def run_shard(shard):
    acc = Acc(make_classifier(ID, SIGNATURES))
    for idx, (kind, case) in enumerate(cases(shard['tier'])):
        if idx % NPART == shard['i']:
            run_one(acc, kind, case)
    return acc


def replay(case):
    acc = Acc()
    kind = 'ordinary' if case.get('ordinary') else ('first-end' if case.get('first_end') else 'opaque')
    run_one(acc, kind, {k: v for k, v in case.items() if k in ('name', 'skip_envs', 'body', 'depth', 'second')})
    return acc.viol


def snippet(v):
    c = v['case']
    return 'from TexSoup import TexSoup\nsoup = TexSoup(%r, skip_envs=%r)\nprint(repr(soup.expr))\n# expected: %r\n' % (
        c['src'], tuple(c['skip_envs']), v['expected'])


SIGNATURES = {}


def coverage(tier, total):
    n = N()
    return {
        'rule': 'names: built-ins %r and user names %r + %r via skip_envs, under configurations (), (u), (u,u\'); bodies: all '
                'strings of <= %d symbols over %r (<= %d for the three main name/configuration pairs) satisfying the provisos; '
                'nesting depth 0..2; unlisted user names compared with a renamed ordinary environment; first-\\end layer.  '
                'distinct = distinct (source, configuration)' % (
                    BUILTIN, USER, n.e, 2 if tier == 'quick' else 3, body_symbols(n, '<same>'), 3 if tier == 'quick' else 4),
        'representatives': n.describe(),
    }
