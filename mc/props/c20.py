"""C20 - the look-ahead buffer is a faithful cursor over its sequence.

E-HIST: breadth-first search over cursor operations on a real `Buffer`, in lock-step with a
(list, index) model; string-backed and token-backed buffers.  (DESIGN.md section 5, C20)"""
import itertools

from .. import hist
from ..runner import Acc, HarnessError, bind, make_classifier

ID = 'C20'
LEVEL = 'model_checking'
ASSUMPTIONS = [
    'in-range moves only; negative absolute indices and out-of-range forward/backward are outside the statement',
    'state key = cursor index + every instance attribute of the buffer (lengths of lists, values of scalars), so hidden '
    'state added by a refactoring is part of the key; all sequences without merging validate the key to depth 2-3',
    'token-backed buffers are built exactly as the parser builds them: tokenize(categorize(src))',
]

PREDS = {
    'a': lambda x: x == 'a',
    'b': lambda x: x == 'b',
    'never': lambda x: False,
    'always': lambda x: True,
}
BPREDS = {
    'sw_a': lambda b: b.startswith('a'),
    'sw_ab': lambda b: b.startswith('ab'),
    'never': lambda b: False,
}
MPREDS = {   # the same buffer predicates on the model
    'sw_a': lambda rest: rest.startswith('a'),
    'sw_ab': lambda rest: rest.startswith('ab'),
    'never': lambda rest: False,
}
AFFIXES = ['', 'a', 'b', 'ab', 'ba']

TOKEN_SOURCES = ['a', 'ab', 'a{b}', r'\a b', 'a$b$', 'ab{a}b', r'a\\b', 'a b{', '{a}{b}']


def sources(tier):
    n = 3 if tier == 'quick' else 4
    out = []
    for k in range(0, n + 1):
        for t in itertools.product('ab', repeat=k):
            out.append(('str', ''.join(t)))
    for s in TOKEN_SOURCES:
        out.append(('tok', s))
    return out


class Model:
    def __init__(self, items, pos):
        self.L = items
        self.P = pos
        self.i = 0

    def join(self, a, b):
        return ''.join(self.L[a:b]), (self.P[a] if a < b and a < len(self.L) else None)


class System:
    def __init__(self):
        bind()
        from TexSoup.utils import Buffer, Token
        from TexSoup.category import categorize
        from TexSoup.tokens import tokenize
        self.Buffer, self.Token, self.categorize, self.tokenize = Buffer, Token, categorize, tokenize
        self.qattr = '_Buffer__queue'
        self._tokcache = {}

    # -- construction ---------------------------------------------------------------------------
    def fresh(self, init):
        backing, src = init
        if backing == 'str':
            return self.Buffer(src), Model(list(src), list(range(len(src))))
        if src not in self._tokcache:
            toks = list(self.tokenize(self.categorize(src)))
            self._tokcache[src] = ([str(t) for t in toks], [t.position for t in toks])
        items, pos = self._tokcache[src]
        return self.tokenize(self.categorize(src)), Model(list(items), list(pos))

    def key(self, impl, model):
        # everything the object remembers: every instance attribute except the underlying iterator and callables
        # (so a cache added by a refactoring becomes part of the state automatically)
        items = []
        for name, val in sorted(vars(impl).items()):
            if callable(val) or hasattr(val, '__next__'):
                continue
            if isinstance(val, list):
                items.append((name, len(val)))
            elif isinstance(val, (int, str, bool, type(None), tuple)):
                items.append((name, repr(val)))
            else:
                items.append((name, repr(val)[:80]))
        return (model.i, tuple(items))

    # -- menu -----------------------------------------------------------------------------------
    def enabled(self, m):
        n, i = len(m.L), m.i
        ops = [('next',), ('position',)]
        ops += [('forward', j) for j in range(0, n - i + 1)]
        ops += [('backward', j) for j in range(0, i + 1)]
        ops += [('peek', j) for j in range(-i, n - i + 3)]
        ops += [('peekr', a, b) for a in range(-min(i, 2), 3) for b in range(a, n - i + 3) if b - a <= 3]
        ops += [('idx', k) for k in range(0, n + 2)]
        ops += [('slice', a, b) for a in (None, 0, 1, 2) for b in (None, 0, 1, 2, 3, n + 1)
                if a is None or b is None or a <= b]
        ops += [('hasNext', k) for k in (1, 2, 3)]
        ops += [('startswith', s) for s in AFFIXES]
        ops += [('endswith', s) for s in AFFIXES if len(s) <= i]
        ops += [('fu', c) for c in PREDS] + [('nfu', c) for c in PREDS] + [('fub', c) for c in BPREDS]
        return ops

    # -- one step on both sides ------------------------------------------------------------------
    def model_step(self, m, op):
        n, i, k = len(m.L), m.i, op[0]
        if k == 'next':
            if i < n:
                m.i += 1
                return ('tok', m.L[i], m.P[i])
            return ('exc', 'StopIteration')
        if k == 'position':
            return ('val', i)
        if k == 'forward':
            m.i += op[1]
            return ('tok',) + m.join(i, i + op[1])
        if k == 'backward':
            m.i -= op[1]
            return ('tok',) + m.join(i - op[1], i)
        if k == 'peek':
            j = i + op[1]
            return ('tok', m.L[j], m.P[j]) if 0 <= j < n else ('none',)
        if k == 'peekr':
            return ('tok',) + m.join(i + op[1], i + op[2])
        if k == 'idx':
            return ('tok', m.L[op[1]], m.P[op[1]]) if op[1] < n else ('exc', 'IndexError')
        if k == 'slice':
            a, b = op[1], op[2]
            lo = 0 if a is None else min(a, n)
            hi = n if b is None else min(b, n)
            return ('tok',) + m.join(lo, max(lo, hi))
        if k == 'hasNext':
            return ('val', i + op[1] - 1 < n)
        if k == 'startswith':
            return ('val', ''.join(m.L[i:]).startswith(op[1]))
        if k == 'endswith':
            return ('val', ''.join(m.L[:i]).endswith(op[1]))
        if k in ('fu', 'nfu'):
            c = PREDS[op[1]]
            j = i
            while j < n and not c(m.L[j]):
                j += 1
            if k == 'nfu':
                return ('val', j - i)
            m.i = j
            return ('tok',) + m.join(i, j)
        if k == 'fub':
            c = MPREDS[op[1]]
            j = i
            while j < n and not c(''.join(m.L[j:])):
                j += 1
            m.i = j
            return ('tok',) + m.join(i, j)
        raise AssertionError(op)

    def impl_step(self, b, op):
        k = op[0]
        try:
            if k == 'next':
                r = next(b)
            elif k == 'position':
                return ('val', b.position)
            elif k == 'forward':
                r = b.forward(op[1])
            elif k == 'backward':
                r = b.backward(op[1])
            elif k == 'peek':
                r = b.peek(op[1])
            elif k == 'peekr':
                r = b.peek((op[1], op[2]))
            elif k == 'idx':
                r = b[op[1]]
            elif k == 'slice':
                r = b[op[1]:op[2]]
            elif k == 'hasNext':
                return ('val', b.hasNext(op[1]))
            elif k == 'startswith':
                return ('val', b.startswith(op[1]))
            elif k == 'endswith':
                return ('val', b.endswith(op[1]))
            elif k == 'fu':
                r = b.forward_until(PREDS[op[1]])
            elif k == 'nfu':
                return ('val', b.num_forward_until(PREDS[op[1]]))
            elif k == 'fub':
                r = b.forward_until(BPREDS[op[1]], peek=False)
            else:
                raise HarnessError('unknown op %r' % (op,))
        except HarnessError:
            raise
        except StopIteration:
            return ('exc', 'StopIteration')
        except IndexError:
            return ('exc', 'IndexError')
        except Exception as e:  # anything else is "failing instead of reporting exhaustion"
            return ('exc', type(e).__name__)
        if r is None:
            return ('none',)
        return ('tok', str(r), getattr(r, 'position', None))

    def step(self, impl, model, op):
        exp = self.model_step(model, op)
        obs = self.impl_step(impl, op)
        # Compared: kind of result (item / None / exception class / value) and its text.  The `.position`
        # attribute of returned items is NOT compared: the statement speaks of the items and the cursor;
        # source offsets of tokens are C13's subject (and a string-backed Buffer numbers lazily
        # materialised items by the cursor, which no parser path relies on).
        same = exp[:2] == obs[:2]
        pos = impl.position
        if not same or pos != model.i:
            return ({'ret': list(exp), 'cursor': model.i}, {'ret': list(obs), 'cursor': pos})
        return None


_SYS = None


def system():
    global _SYS
    if _SYS is None:
        _SYS = System()
    return _SYS


def shards(tier):
    return [{'init': list(s), 'tier': tier} for s in sources(tier)]


def run_shard(shard):
    sysm = system()
    acc = Acc(make_classifier(ID, SIGNATURES))
    init = tuple(shard['init'])
    depth = 3 if shard['tier'] == 'quick' else 5
    seqdepth = 2 if shard['tier'] == 'quick' else 3
    if shard['tier'] != 'quick' and init[0] == 'str' and len(init[1]) >= 4:
        seqdepth = 2
    if shard['tier'] == 'quick' and len(init[1]) <= 2:
        seqdepth = 3
    r = hist.bfs(sysm, init, depth)
    r2 = hist.sequences(sysm, init, seqdepth)
    acc.evals = r.transitions + r2.transitions
    acc.extra['states'] += r.states
    acc.extra['transitions'] += r.transitions
    acc.extra['seq_transitions'] += r2.transitions
    acc.extra['traces'] += r.traces + r2.traces
    acc.extra['saturated_graphs'] += int(r.saturated)
    acc.extra['max_depth'] = max(r.max_depth, 0)
    acc.hist['bfs_depth_%d' % r.max_depth] += 1
    for s in r.samples[:1]:
        acc.sample(s)
    for (h, op, exp, obs) in r.violations + r2.violations:
        case = {'init': list(init), 'history': [list(o) for o in h], 'op': list(op) if op else None}
        acc.violation('step', case, exp, obs, size=len(h) * 100 + len(init[1]))
    # distinct observed outcomes = distinct (state key) per source
    acc.digests.add(hash((init, r.states, r.transitions)))
    return acc


def replay(case):
    sysm = system()
    init = tuple(case['init'])
    impl, model = sysm.fresh(init)
    out = []
    for op in [tuple(o) for o in case['history']] + [tuple(case['op'])]:
        bad = sysm.step(impl, model, tuple(op))
        if bad is not None:
            out.append({'sub': 'step', 'expected': bad[0], 'observed': bad[1]})
            break
    return out


def snippet(v):
    c = v['case']
    ctor = ('Buffer(%r)' % c['init'][1]) if c['init'][0] == 'str' else \
        ('tokenize(categorize(%r))' % c['init'][1])
    return ('from TexSoup.utils import Buffer\nfrom TexSoup.category import categorize\n'
            'from TexSoup.tokens import tokenize\n'
            'b = %s\n# apply, in order: %r then %r\n# expected (list+index model): %r\n# observed: %r\n'
            % (ctor, c['history'], c['op'], v['expected'], v['observed']))


SIGNATURES = {}


def coverage(tier, total):
    return {
        'states': int(total.extra['states']),
        'transitions': int(total.extra['transitions'] + total.extra['seq_transitions']),
        'traces_validated_against_impl': int(total.extra['traces']),
        'max_depth': 3 if tier == 'quick' else 5,
        'rule': 'BFS over cursor operations (next, forward/backward j in range, peek j, peek (a,b), b[k], '
                'b[a:b], hasNext n<=3, startswith/endswith over %r, forward_until / num_forward_until with item '
                'predicates, forward_until(peek=False) with buffer predicates, position) on every string over '
                '{a,b} of length <= %d and %d token-backed sources; state key (index, materialised items); every '
                'transition of every distinct state executed against the list+index model; plus all operation '
                'sequences without state merging to depth %d' % (
                    AFFIXES, 3 if tier == 'quick' else 4, len(TOKEN_SOURCES), 2 if tier == 'quick' else 3),
        'sources': len(sources(tier)),
        'saturated_graphs': int(total.extra['saturated_graphs']),
    }
