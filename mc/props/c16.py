"""C16 - serialised output is a fixed point of the parser.  E-STR + E-GRAM whitespace variants (DESIGN section 5, C16)"""
import re

from .. import gram, layers, strings
from ..canon import canon
from ..runner import Acc, make_classifier, seed
from . import egram
from .c08 import admissible, FAMILIES

ID = 'C16'
LEVEL = 'exploration'
ASSUMPTIONS = [
    'side conditions checked lexically (as in C08): no NUL/DEL; \\def/\\textbf/\\section/\\label only with brace groups; '
    'a sizing prefix (\\left \\right \\big \\Big \\bigg \\Bigg) is immediately followed by one of the 22 LaTeX delimiters',
    'fresh-character strings: every string gets a non-ASCII letter that no earlier string of the run contained, so that '
    'anything the library remembers about a character at first sight is exercised on the first and the second parse',
    'shape = canonical tree (names, argument kinds/order/contents, contents) with adjacent text coalesced, positions '
    'dropped; then repr(expr) of both parses (the split of text into runs included)',
]
DELIMS = ['(', ')', '<', '>', '[', ']', '{', '}', '\\{', '\\}', '.', '|', '\\langle', '\\rangle', '\\lfloor', '\\rfloor',
          '\\lceil', '\\rceil', '\\ulcorner', '\\urcorner', '\\lbrack', '\\rbrack']
SIZING = re.compile(r'\\(left|right|bigg|Bigg|big|Big)(?![A-Za-z])')
ATTACHING = [' ', '\t', '\n', ' \n ', '  ', '\t\n\t']


def sizing_ok(src):
    for m in SIZING.finditer(src):
        if not any(src.startswith(d, m.end()) for d in DELIMS):
            return False
    return True


def check_string(acc, src, origin):
    if not admissible(src) or not sizing_ok(src):
        acc.extra['skipped_side_condition'] += 1
        return
    s1, exc = egram.parse(src)
    if exc is not None:
        acc.extra['strict_failures'] += 1
        return
    case = {'src': src, 'origin': origin}
    try:
        t = str(s1)
    except Exception as e:      # noqa: serialising a parsed tree must not fail
        acc.violation('serialise-raises', case, 'str(TexSoup(src)) succeeds', egram.exc_repr(e), size=len(src))
        return
    s2, exc = egram.parse(t)
    if exc is not None:
        acc.violation('reparse-fails', case, 'TexSoup(%r) succeeds' % t, egram.exc_repr(exc), size=len(src))
        return
    t2 = str(s2)
    if t2 != t:
        acc.violation('text-drifts', case, t, t2, size=len(src))
        return
    c1, c2 = canon(s1), canon(s2)
    if c1 != c2:
        acc.violation('shape-changes', case, c1, c2, size=len(src))
        return
    r1, r2 = repr(s1.expr), repr(s2.expr)
    if r1 != r2:
        # the observable the property names: also the split of text into runs must be the same
        acc.violation('repr-changes', case, r1, r2, size=len(src))
        return
    s3, exc = egram.parse(t2)
    if exc is not None or str(s3) != t2 or canon(s3) != c2:
        acc.violation('third-pass', case, t2, egram.exc_repr(exc) if exc else str(s3), size=len(src))
        return
    acc.ok(hash(src), cls='identical' if t == src else 'normalised')
    if acc.evals % 9973 == 1:
        acc.sample({'src': src, 'out': t})


def shards(tier):
    out = [{'kind': 'mixed'}]
    out += [{'kind': 'fresh', 'i': i, 'k': 8} for i in range(8)]
    out += [dict(s, kind='sigma') for s in strings.shards('quick' if tier == 'quick' else 'thorough')]
    plan = 'small-quick' if tier == 'quick' else 'ws-thorough'
    out += [dict(s, kind='ws', tier=tier) for s in layers.shards(plan, ('args',))]
    return out


def prepare(tier):
    layers.prepare('small-quick' if tier == 'quick' else 'ws-thorough')


def ws_variants(text, two):
    pos = [i for i, ch in enumerate(text) if ch in '{[']
    for a, i in enumerate(pos):
        for w in ATTACHING:
            v = text[:i] + w + text[i:]
            yield v
            if two:
                for j in pos[a + 1:]:
                    for w2 in ATTACHING[:3]:
                        yield v[:j + len(w)] + w2 + v[j + len(w):]


def run_shard(shard):
    acc = Acc(make_classifier(ID, SIGNATURES))
    if shard['kind'] == 'mixed':
        for s in layers.mixed_arg_strings():
            check_string(acc, s, 'mixed-order arguments')
        for s in layers.env_name_strings():
            check_string(acc, s, 'environment names')
    elif shard['kind'] == 'fresh':
        for j, s in enumerate(strings.fresh_char_strings()):
            if j % shard['k'] == shard['i']:
                check_string(acc, s, 'fresh-character')
    elif shard['kind'] == 'sigma':
        for s in strings.iter_strings(shard):
            check_string(acc, s, 'sigma-' + shard['alpha'])
    else:
        two = shard['tier'] != 'quick' and shard.get('n', 9) <= 3     # pairs of separators: documents of <= 3 constructs
        for text, items in layers.iter_docs(shard):
            check_string(acc, text, 'doc')
            for s in ws_variants(text, two):
                check_string(acc, s, 'ws-variant')
    return acc


def replay(case):
    acc = Acc()
    check_string(acc, case['src'], case.get('origin', ''))
    return acc.viol


def snippet(v):
    return ('from TexSoup import TexSoup\nsrc = %r\nt = str(TexSoup(src))\nt2 = str(TexSoup(t))\nassert t2 == t, (t, t2)\n'
            'assert repr(TexSoup(t).expr) == repr(TexSoup(src).expr)\n' % v['case']['src'])


SIGNATURES = {}


def coverage(tier, total):
    plan = 'quick' if tier == 'quick' else 'thorough'
    lp = 'small-quick' if tier == 'quick' else 'ws-thorough'
    return {
        'rule': 'all strings of <= n symbols over the token-kind alphabets (%s) that satisfy the side conditions and parse '
                'in strict mode; every L_wf document of (%s) and its variants with an attaching separator from %r before '
                '%s group opener(s)%s; strings that each bring a never-seen non-ASCII character; parse-print applied three '
                'times.  distinct = distinct parseable inputs' % (
                    ', '.join('%s n<=%d' % p for p in strings.PLAN[plan]),
                    ', '.join('%s <= %d nodes' % p for p in layers.PLAN[lp]), ATTACHING,
                    'one' if tier == 'quick' else 'one, or two (documents of <= 3 constructs)', FAMILIES),
        'skipped_side_condition': int(total.extra['skipped_side_condition']),
        'strict_failures_not_judged': int(total.extra['strict_failures']),
        'representatives': gram.Names(seed()).describe(),
    }
