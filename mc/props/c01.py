"""C01 - parse -> serialise round trip is lossless on well-formed documents.  (E-GRAM; DESIGN section 5, C01)"""
import collections

from .. import gram, layers
from ..runner import Acc, make_classifier
from . import egram

ID = 'C01'
LEVEL = 'exploration'
ASSUMPTIONS = [
    'well-formed = derivable from the grammar of mc/gram.py under rules R1-R12 (DESIGN section 3); each rule '
    'only removes documents',
    'one representative per character class / name pool, rotated by VERIF_SEED',
    'sample documents, documentation examples and documents of <= 2 constructs are also handed over as StringIO, list of '
    'lines, two chunks and single characters (the samples reach the parser through open files)',
    'node text is checked the way the property says to observe it: str(node) against the source slice at '
    'node.position, plus the multiset of (span start, text) of all generator constructs',
]
EXTRA = ('neigh', 'char', 'args', 'samples', 'nest', 'sibs', 'long')


def check_doc(acc, src, items):
    soup, exc = egram.parse(src)
    case = egram.case_of(src, items)
    size = egram.size_of(src, items)
    if exc is not None:
        acc.violation('parse', case, 'parsing succeeds', egram.exc_repr(exc), size)
        return
    try:
        out = str(soup)
    except Exception as e:      # noqa: serialising a parsed tree must not fail
        acc.violation('serialise-raises', case, src, egram.exc_repr(e), size)
        return
    if out != src:
        acc.violation('roundtrip', case, src, out, size)
        return
    # text of every node == the slice of the source it was parsed from
    bad = None
    got = []
    T = egram.types()
    for d in soup.descendants:
        txt = str(d)
        pos = getattr(d, 'position', None)
        if isinstance(d, T['TexNode']):
            got.append((pos, txt))
        if pos is None or pos < 0 or not src.startswith(txt, pos):
            bad = (pos, txt)
            break
    if bad is not None:
        acc.violation('node-text', case, 'str(node) == src[node.position:...]', list(bad), size)
        return
    if items is not None:
        want = collections.Counter(egram.nontext_nodes(items))
        if collections.Counter(got) != want:
            acc.violation('node-spans', case, sorted(want.elements()), sorted(got), size)
            return
    acc.ok(hash(src))
    if acc.evals % 997 == 1:
        acc.sample(src)


def input_forms(src):
    import io
    yield 'StringIO', lambda: io.StringIO(src)
    yield 'lines', lambda: src.splitlines(True)
    h = len(src) // 2
    yield 'two-chunks', lambda: [src[:h], src[h:]]
    if len(src) <= 40:
        yield 'characters', lambda: tuple(src)


def check_forms(acc, src):
    """the sample documents reach the parser through open files and lists of lines: the same source, handed over in
    the other documented ways, must come back character for character as well"""
    for label, mk in input_forms(src):
        soup, exc = egram.parse(mk())
        case = {'src': src, 'items': None, 'form': label}
        if exc is not None:
            acc.violation('parse-input-form', case, 'parsing succeeds', egram.exc_repr(exc), len(src))
            return
        out = str(soup)
        if out != src:
            acc.violation('roundtrip-input-form', case, src, out, len(src))
            return
        acc.ok(hash((src, label)))


def shards(tier):
    return layers.shards(tier, EXTRA)


def prepare(tier):
    layers.prepare(tier)


def run_shard(shard):
    acc = Acc(make_classifier(ID, SIGNATURES))
    for src, items in layers.iter_docs(shard):
        check_doc(acc, src, items)
        if shard['layer'] == 'samples' or (shard['layer'] == 'alpha' and shard['n'] <= 2):
            check_forms(acc, src)
        acc.hist[shard['layer'] + (':' + shard['alpha'] + str(shard['n']) if shard['layer'] == 'alpha' else '')] += 1
    return acc


def replay(case):
    acc = Acc()
    items = gram.tuplify(case['items']) if case.get('items') is not None else None
    if case.get('form'):
        check_forms(acc, case['src'])
        return [v for v in acc.viol if v['case']['form'] == case['form']]
    check_doc(acc, case['src'], items)
    return acc.viol


def snippet(v):
    return ('from TexSoup import TexSoup\nsrc = %r\nsoup = TexSoup(src)\nassert str(soup) == src\n'
            'for d in soup.descendants:\n    assert src.startswith(str(d), d.position)\n' % v['case']['src'])


SIGNATURES = {}


def coverage(tier, total):
    return {
        'rule': 'every L_wf document of: %s, plus the neighbour layer (all ordered pairs of constructs x 4 separators x '
                'every container), the character layer, the sibling layer (4-8 siblings), six long documents (300 commands, a 3000-character run, 70 arguments, 100 items, 400 lines, 100 math regions), the nest layer (two container kinds alternating to depth 5..40, 306 documents) '
                'and tests/samples/*.tex + documentation examples (also as StringIO / lines / chunks); a document is distinct '
                'by its source text' % ', '.join('%s <= %d nodes' % p for p in layers.PLAN[tier]),
        'layers': dict(total.hist),
        'representatives': gram.Names(__import__('mc.runner', fromlist=['seed']).seed()).describe(),
    }
