"""C03 - search returns exactly the matching nodes.  (E-GRAM; DESIGN section 5, C03)"""
import collections
import itertools

from .. import gram, layers
from ..runner import Acc, make_classifier, seed
from . import egram

ID = 'C03'
LEVEL = 'exploration'
ASSUMPTIONS = [
    'expected result = multiset of generator nodes (commands, environments) of that name strictly below the search root, '
    'through bodies, items, math, groups and argument groups',
    'order inside find_all is not constrained (only find == find_all[0])',
    'full-expression queries are issued only when they contain a brace or bracket (the documented form); an '
    'environment whose bare \\begin{name} or \\end{name} equals the query but whose opening has arguments is "do not care"',
    'query names never collide with TexNode attributes, with "text", or with group / math pseudo-names',
]
ABSENT = ['zzz', 'nope']


def gen_index(items):
    """-> (ann, index {(start,text): annotated node}, below {id(annnode): [annotated C/E/M/G nodes strictly below]})"""
    ann = gram.layout(items)
    index = {}
    below = {}

    def rec(d):
        k = d['n'][0]
        subs = []
        kids = []
        if k in ('C', 'E'):
            for a in d['args']:
                kids.extend(a['body'])
            kids.extend(d['body'])
        elif k in ('G{', 'G[', 'M'):
            kids.extend(d['body'])
        for c in kids:
            if c['n'][0] in ('C', 'E', 'M', 'G{'):
                subs.append(c)
            subs.extend(rec(c))
        below[id(d)] = subs
        if k in ('C', 'E', 'M', 'G{'):
            index[(d['s'], gram.text_of(d['n']))] = d
        return subs
    top = []
    for d in ann:
        if d['n'][0] in ('C', 'E', 'M', 'G{'):
            top.append(d)
        top.extend(rec(d))
    return ann, index, below, top


def key_of(node):
    return (node.position, str(node))


def check_doc(acc, src, items, only=None):
    soup, exc = egram.parse(src)
    case0 = egram.case_of(src, items)
    size = egram.size_of(src, items)
    if exc is not None:
        acc.violation('parse', case0, 'parsing succeeds', egram.exc_repr(exc), size)
        return
    T = egram.types()
    ann, index, below, top = gen_index(items)
    roots = [(soup, None, top)]
    for d in soup.descendants:
        if isinstance(d, T['TexNode']):
            g = index.get(key_of(d))
            if g is None:
                acc.violation('node-unknown', case0, 'every tree node corresponds to a generator construct',
                              list(key_of(d)), size)
                return
            roots.append((d, key_of(d), below[id(g)]))
    names = sorted({g['n'][1] for g in top if g['n'][0] in ('C', 'E')})
    queries = [('name', n) for n in names] + [('name', n) for n in ABSENT]
    pool = names[:3] + ABSENT[:1]
    queries += [('list', list(p)) for p in itertools.combinations(pool, 2)][:4] + [('list', pool)]
    fulls = set()
    for g in top:
        k = g['n'][0]
        if k == 'C':
            t = gram.text_of(g['n'])
            if '{' in t or '[' in t:
                fulls.add(t)
        elif k == 'E':
            fulls.add('\\begin{%s}' % g['n'][1])
            fulls.add('\\begin{%s}' % g['n'][1] + ''.join(gram.text_of(a) for a in g['n'][2]))
    fulls.add('\\%s{%s}' % (ABSENT[0], 'q'))
    # near misses: every full expression with its last character cut off matches nothing (unless it spells another node)
    fulls |= {f[:-1] for f in fulls if len(f) > 3 and ('{' in f[:-1] or '[' in f[:-1])}
    queries += [('full', f) for f in sorted(fulls)]
    # the parser's own pseudo-names for $..$ and $$..$$ regions: results must at least be sound (no region of another kind)
    if any(g['n'][0] == 'M' for g in top):
        queries += [('mathname', '$'), ('mathname', '$$')]
    nq = 0
    for root, rkey, sub in roots:
        for qk, q in queries:
            if only is not None and (rkey != only[0] or [qk, q] != only[1]):
                continue
            nq += 1
            case = dict(case0, root=list(rkey) if rkey else None, query=[qk, q])
            try:
                got = root.find_all(q)
                first = root.find(q) if qk != 'list' else (got[0] if got else None)
                cnt = root.count(q) if qk != 'list' else len(got)
            except Exception as e:
                acc.violation('search-raises', case, 'a list', egram.exc_repr(e), size)
                return
            gotkeys = collections.Counter(key_of(x) for x in got)
            if qk == 'mathname':
                ok = {(g['s'], gram.text_of(g['n'])) for g in sub if g['n'][0] == 'M' and g['n'][1] == q}
                bad = bool(set(gotkeys) - ok)
                wantrep = {'subset of': sorted(ok)}
            elif qk in ('name', 'list'):
                qs = [q] if qk == 'name' else q
                want = collections.Counter((g['s'], gram.text_of(g['n'])) for g in sub
                                           if g['n'][0] in ('C', 'E') and g['n'][1] in qs)
                bad = gotkeys != want
                wantrep = sorted(want.elements())
            else:
                must = collections.Counter()
                may = collections.Counter()
                for g in sub:
                    n = g['n']
                    t = gram.text_of(n)
                    if t == q:
                        must[(g['s'], t)] += 1
                    elif n[0] == 'E':
                        opening = '\\begin{%s}' % n[1] + ''.join(gram.text_of(a) for a in n[2])
                        if opening == q:
                            must[(g['s'], t)] += 1
                        elif q in ('\\begin{%s}' % n[1], '\\end{%s}' % n[1]):
                            may[(g['s'], t)] += 1
                bad = bool(must - gotkeys) or bool(gotkeys - must - may)
                wantrep = {'must': sorted(must.elements()), 'may': sorted(may.elements())}
            if bad:
                acc.violation('find_all', case, wantrep, sorted(gotkeys.elements()), size)
                return
            if (first is None) != (not got) or (got and first.expr is not got[0].expr):
                acc.violation('find', case, 'find == find_all[0] or None',
                              [None if first is None else list(key_of(first)), [list(key_of(x)) for x in got[:1]]], size)
                return
            if cnt != len(got):
                acc.violation('count', case, len(got), cnt, size)
                return
            if qk == 'name':
                try:
                    att = getattr(root, q)
                except Exception as e:
                    acc.violation('attribute', case, 'soup.<name> == find', egram.exc_repr(e), size)
                    return
                if (att is None) != (first is None) or (att is not None and att.expr is not first.expr):
                    acc.violation('attribute', case, None if first is None else list(key_of(first)),
                                  None if att is None else list(key_of(att)), size)
                    return
    acc.ok(hash(src), nontrivial=bool(top))
    acc.extra['queries'] += nq
    acc.extra['roots'] += len(roots)
    if acc.evals % 997 == 1:
        acc.sample({'src': src, 'roots': len(roots), 'queries': [q for _, q in queries][:8]})


def plan(tier):
    return 'search-' + tier


def shards(tier):
    return layers.shards(plan(tier), ('order', 'args', 'sibs', 'long'))


def prepare(tier):
    layers.prepare(plan(tier))


def run_shard(shard):
    acc = Acc(make_classifier(ID, SIGNATURES))
    for src, items in layers.iter_docs(shard):
        check_doc(acc, src, items)
        acc.hist[shard['layer'] + ':' + shard.get('alpha', '') + str(shard.get('n', ''))] += 1
    return acc


def replay(case):
    acc = Acc()
    only = None
    if 'query' in case:
        only = (tuple(case['root']) if case.get('root') else None, list(case['query']))
        if only[0] is not None:
            only = ((only[0][0], only[0][1]), only[1])
    check_doc(acc, case['src'], gram.tuplify(case['items']), only=only)
    return acc.viol


def snippet(v):
    c = v['case']
    return ('from TexSoup import TexSoup\nsoup = TexSoup(%r)\n# search root: %r (None = the document), query: %r\n'
            '# expected matches (offset, text): %r\n# observed: %r\n'
            % (c['src'], c.get('root'), c.get('query'), v['expected'], v['observed']))


SIGNATURES = {}


def coverage(tier, total):
    return {
        'rule': 'every L_wf document of: %s, of the order, argument and sibling (4-8 siblings) layers and six long documents; every node as search root; every name occurring in the document, 2 absent '
                'names, name pairs as list queries, every command text containing a group and every \\begin{name}[args] as '
                'full-expression queries; find_all compared as a multiset with the generator nodes below the root; find, '
                'count, attribute access compared with find_all' % ', '.join('%s <= %d nodes' % p for p in layers.PLAN[plan(tier)]),
        'layers': dict(total.hist),
        'queries_evaluated': int(total.extra['queries']),
        'search_roots': int(total.extra['roots']),
        'representatives': gram.Names(seed()).describe(),
    }
