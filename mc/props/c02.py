"""C02 - the parse tree mirrors the construct structure of the document.  (E-GRAM; DESIGN section 5, C02)"""
from .. import gram, layers
from ..canon import canon
from ..runner import Acc, make_classifier, seed
from . import egram

ID = 'C02'
LEVEL = 'exploration'
ASSUMPTIONS = [
    'the generating syntax tree is the oracle; well-formed = rules R1-R12 of DESIGN section 3',
    'adjacent text leaves are coalesced before comparison (the segmentation of text runs is not constrained); '
    'comments are never coalesced',
    'one representative per character class / name pool, rotated by VERIF_SEED',
]
EXTRA = ('neigh', 'char', 'args', 'nest', 'sibs', 'long')


def check_doc(acc, src, items):
    soup, exc = egram.parse(src)
    case = egram.case_of(src, items)
    size = egram.size_of(src, items)
    if exc is not None:
        acc.violation('parse', case, 'parsing succeeds', egram.exc_repr(exc), size)
        return
    want = gram.coalesce(items)
    got = canon(soup)
    if got != want:
        acc.violation('tree', case, want, got, size)
        return
    acc.ok(hash(want))
    if acc.evals % 997 == 1:
        acc.sample({'src': src, 'tree': want})


def shards(tier):
    return layers.shards(tier, EXTRA)


def prepare(tier):
    layers.prepare(tier)


def run_shard(shard):
    acc = Acc(make_classifier(ID, SIGNATURES))
    for src, items in layers.iter_docs(shard):
        check_doc(acc, src, items)
        acc.hist[shard['layer'] + (':' + shard['alpha'] + str(shard['n']) if shard['layer'] == 'alpha' else '')] += 1
    return acc


def replay(case):
    acc = Acc()
    check_doc(acc, case['src'], gram.tuplify(case['items']))
    return acc.viol


def snippet(v):
    return ('from TexSoup import TexSoup\nsoup = TexSoup(%r)\nprint(repr(soup.expr))\n'
            '# expected structure (T text, CM comment, G{ G[ groups, C command(name,args,body), E environment, M math):\n# %r\n'
            % (v['case']['src'], v['expected']))


SIGNATURES = {}


def coverage(tier, total):
    return {
        'rule': 'every L_wf document of: %s, plus the neighbour layer (all ordered pairs of constructs x 4 separators x '
                'every container), the character layer, the sibling layer (4-8 siblings), six long documents and the nest layer (two container kinds alternating to depth 5..40); canonical tree of the parse compared with the generating '
                'tree; distinct = distinct canonical trees' % ', '.join('%s <= %d nodes' % p for p in layers.PLAN[tier]),
        'layers': dict(total.hist),
        'representatives': gram.Names(seed()).describe(),
    }
