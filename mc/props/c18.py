"""C18 - argument lists behave like Python lists of groups.

E-HIST: BFS over list operations on the real `args` of a real, parsed owner node, in lock-step with a
plain Python list of group strings.  (DESIGN.md section 5, C18)"""
from .. import hist
from ..runner import Acc, HarnessError, bind, make_classifier

ID = 'C18'
LEVEL = 'model_checking'
ASSUMPTIONS = [
    'groups are compared by their serialisation (TexSoup defines group equality textually)',
    'exception classes as list raises them: IndexError (pop / index out of range), ValueError (remove of an '
    'absent group); a string with mismatched delimiters must be rejected (TypeError or ValueError) and leave the list unchanged',
    'whitespace-only strings are accepted or rejected at the implementation\'s discretion; either way the list of groups must not change',
    'the shadow list (.all) is part of the state key only, never of the oracle',
    'the model keeps one cell per group object: extend(self) stores every object twice, so editing a group in place '
    '(group.append) shows at every position that holds it - exactly as in a Python list of mutable objects',
]

INITS = [
    ('bare', ''),                       # TexArgs() without owner
    ('cmd', r'\t'),
    ('cmd', r'\t{a}'),
    ('cmd', r'\t[b]{a}'),
    ('cmd', r'\t{a}{a}'),
    ('cmd', r'\t[b]{a}{c}'),
    ('cmd', r'\t{}[b]'),
    ('env', r'\begin{e}{a}x\end{e}'),
    ('item', r'\item[b]x'),
]
POOL = ['{a}', '[b]', '{{c}}']        # the third one has a nested group: only one closing delimiter may be cut off
BAD = ['{a]', '[a', 'x', '', 'a}']


class System:
    def __init__(self):
        ts = bind()
        self.TexSoup = ts.TexSoup
        from TexSoup.data import TexArgs, BraceGroup, BracketGroup
        self.TexArgs, self.Brace, self.Bracket = TexArgs, BraceGroup, BracketGroup

    def group(self, how, g):
        if how == 'str':
            return g
        return (self.Brace if g[0] == '{' else self.Bracket)(g[1:-1])

    def fresh(self, init):
        kind, src = init
        if kind == 'bare':
            args = self.TexArgs()
            return {'args': args, 'owner': None, 'head': '', 'tail': ''}, []
        soup = self.TexSoup(src)
        owner = soup.expr._contents[0]
        model = [[str(a)] for a in owner.args]     # one cell per group object: aliases (extend(self)) share a cell
        if kind == 'cmd':
            head, tail = '\\t', ''
        elif kind == 'env':
            head, tail = '\\begin{e}', 'x\\end{e}'
        else:
            head, tail = '\\item', 'x'
        return {'args': owner.args, 'owner': owner, 'head': head, 'tail': tail, 'soup': soup}, model

    def key(self, impl, model):
        a = impl['owner'].args if impl['owner'] is not None else impl['args']
        alias = tuple(min(j for j, d in enumerate(model) if d is c) for c in model)
        return (tuple(c[0] for c in model), alias, tuple(str(x) for x in getattr(a, 'all', ())))

    def enabled(self, m):
        n = len(m)
        ops = []
        for how in ('str', 'obj'):
            ops += [('append', how, g) for g in POOL]
        ops += [('extend', 'str', '{a}', '[b]'), ('extend', 'obj', '{{c}}', '{a}'), ('extend', 'str')]
        if 0 < n <= 3:
            ops += [('extend_self',)]
        for i in range(-n - 2, n + 3):
            ops += [('insert', i, 'str', '[b]'), ('insert', i, 'obj', '{a}')]
        ops += [('insert', 0, 'str', '{{c}}'), ('insert', n, 'obj', '{{c}}')]
        for how in ('str', 'obj'):
            ops += [('remove', how, g) for g in POOL + ['{}']]
        ops += [('remove_elem', i) for i in range(n)]
        ops += [('pop',)] + [('pop', i) for i in range(-n - 1, n + 2)]
        ops += [('reverse',), ('clear',)]
        ops += [('mutate', i) for i in range(min(n, 3))]       # the groups are objects: editing one must not confuse the list
        ops += [('get', i) for i in range(-n - 1, n + 2)]
        ops += [('slice', i, j) for i in range(0, n + 1) for j in range(i, n + 2)]
        ops += [('slice', None, None, -1), ('slice', -1, None), ('slice', None, -1), ('slice', None, None, 2)]
        ops += [('bad', 'append', b) for b in BAD] + [('bad', 'insert0', b) for b in BAD[:3]] + \
               [('bad', 'remove', b) for b in BAD[:3]] + [('bad', 'extend', '{{c}}', '[a')]
        ops += [('ws', 'append', ' '), ('ws', 'insert0', '\n')]
        if n:
            ops += [('setrev',), ('setslice', 0, n - 1), ('setslice', 1, n)]
        return ops

    # ---------------------------------------------------------------------------------------------
    def model_step(self, m, op):
        k = op[0]
        try:
            if k == 'append':
                m.append([op[2]])
                return ('none',)
            if k == 'extend':
                m.extend([g] for g in op[2:])
                return ('none',)
            if k == 'extend_self':
                m.extend(m)
                return ('none',)
            if k == 'insert':
                m.insert(op[1], [op[3]])
                return ('none',)
            if k == 'remove':
                m.remove([op[2]])
                return ('none',)
            if k == 'remove_elem':
                m.remove(m[op[1]])          # list.remove takes out the FIRST element equal to the argument
                return ('none',)
            if k == 'pop':
                return ('grp', m.pop(*op[1:])[0])
            if k == 'mutate':
                c = m[op[1]]
                c[0] = c[0][:-1] + 'Q' + c[0][-1]
                return ('none',)
            if k == 'reverse':
                m.reverse()
                return ('none',)
            if k == 'clear':
                m.clear()
                return ('none',)
            if k == 'get':
                return ('grp', m[op[1]][0])
            if k == 'slice':
                return ('args', [c[0] for c in m[slice(*op[1:])]])
            if k == 'bad':
                return ('rejected',)
            if k == 'ws':
                return ('any',)
            if k == 'setrev':
                m.reverse()
                return ('none',)
            if k == 'setslice':
                m[:] = m[op[1]:op[2]]
                return ('none',)
        except IndexError:
            return ('exc', 'IndexError')
        except ValueError:
            return ('exc', 'ValueError')
        raise HarnessError('unknown op %r' % (op,))

    def impl_step(self, impl, op):
        a = impl['owner'].args if impl['owner'] is not None else impl['args']
        k = op[0]
        try:
            if k == 'append':
                r = a.append(self.group(op[1], op[2]))
            elif k == 'extend':
                r = a.extend([self.group(op[1], g) for g in op[2:]])
            elif k == 'extend_self':
                import signal

                def on_alarm(signum, frame):
                    raise TimeoutError('extend(self) did not return within 3 s of CPU time')
                old = signal.signal(signal.SIGVTALRM, on_alarm)
                signal.setitimer(signal.ITIMER_VIRTUAL, 3)
                try:
                    r = a.extend(a)
                finally:
                    signal.setitimer(signal.ITIMER_VIRTUAL, 0)
                    signal.signal(signal.SIGVTALRM, old)
            elif k == 'insert':
                r = a.insert(op[1], self.group(op[2], op[3]))
            elif k == 'remove':
                r = a.remove(self.group(op[1], op[2]))
            elif k == 'remove_elem':
                r = a.remove(a[op[1]])
            elif k == 'pop':
                r = a.pop(*op[1:])
            elif k == 'mutate':
                r = a[op[1]].append('Q')
            elif k == 'reverse':
                r = a.reverse()
            elif k == 'clear':
                r = a.clear()
            elif k == 'get':
                r = a[op[1]]
            elif k == 'slice':
                r = a[slice(*op[1:])]
                return ('args' if isinstance(r, self.TexArgs) else 'not-TexArgs:' + type(r).__name__,
                        [str(x) for x in r])
            elif k == 'bad':
                try:
                    if op[1] == 'append':
                        a.append(op[2])
                    elif op[1] == 'insert0':
                        a.insert(0, op[2])
                    elif op[1] == 'remove':
                        a.remove(op[2])
                    else:
                        a.extend(list(op[2:]))
                except (TypeError, ValueError):
                    return ('rejected',)
                return ('accepted',)
            elif k == 'ws':
                try:
                    if op[1] == 'append':
                        a.append(op[2])
                    else:
                        a.insert(0, op[2])
                except Exception:
                    pass
                return ('any',)
            elif k == 'setrev':
                if impl['owner'] is None:
                    impl['args'] = a[::-1]
                else:
                    impl['owner'].args = a[::-1]
                r = None
            elif k == 'setslice':
                if impl['owner'] is None:
                    impl['args'] = a[op[1]:op[2]]
                else:
                    impl['owner'].args = a[op[1]:op[2]]
                r = None
            else:
                raise HarnessError('unknown op %r' % (op,))
        except HarnessError:
            raise
        except Exception as e:
            return ('exc', type(e).__name__)
        if r is None:
            return ('none',)
        return ('grp', str(r))

    def observe(self, impl):
        a = impl['owner'].args if impl['owner'] is not None else impl['args']
        o = {'list': [str(x) for x in a], 'len': len(a), 'str': str(a)}
        if impl['owner'] is not None:
            o['owner'] = str(impl['owner'])
            o['doc'] = str(impl['soup'])
        return o

    def expect(self, impl, m):
        texts = [c[0] for c in m]
        o = {'list': texts, 'len': len(m), 'str': ''.join(texts)}
        if impl['owner'] is not None:
            o['owner'] = impl['head'] + ''.join(texts) + impl['tail']
            o['doc'] = o['owner']
        return o

    def step(self, impl, model, op):
        if op[0] == 'bad' and op[1] == 'extend':
            # extend with a valid group followed by a mismatched one: the valid prefix may or may not have been
            # added (list.extend is not atomic either); only "rejected" and a list equal to model or model+prefix
            obs = self.impl_step(impl, op)
            o = self.observe(impl)
            if obs != ('rejected',):
                return ({'ret': ['rejected']}, {'ret': list(obs)})
            if o['list'] == [c[0] for c in model] + [op[2]]:
                model.append([op[2]])
            e = self.expect(impl, model)
            return None if o == e else ({'state': e}, {'state': o})
        exp = self.model_step(model, op)
        obs = self.impl_step(impl, op)
        if obs == ('exc', 'TimeoutError'):
            # the list is unbounded garbage by now: report the non-termination itself, not the state
            return ({'ret': list(exp)}, {'ret': 'did not return within 3 s of CPU time'})
        if exp[0] == 'grp' and obs[0] == 'grp':
            same = exp == obs
        elif exp[0] == 'args':
            same = obs[0] == 'args' and list(obs[1]) == list(exp[1])
        elif exp[0] == 'any':
            same = True
        else:
            same = tuple(exp) == tuple(obs)
        o, e = self.observe(impl), self.expect(impl, model)
        if not same or o != e:
            return ({'ret': list(exp), 'state': e}, {'ret': list(obs), 'state': o})
        return None


_SYS = None


def system():
    global _SYS
    if _SYS is None:
        _SYS = System()
    return _SYS


def depth_of(tier):
    return 4 if tier == 'quick' else 5


def explore(tier):
    import concurrent.futures as cf
    import multiprocessing as mp
    from ..runner import NPROC
    acc = Acc(make_classifier(ID, SIGNATURES))
    with cf.ProcessPoolExecutor(max_workers=NPROC, mp_context=mp.get_context('fork')) as pool:
        for init in INITS:
            depth = depth_of(tier)
            r = hist.parallel_bfs(__name__, tuple(init), depth, pool)
            acc.evals += r.transitions
            acc.extra['states'] += r.states
            acc.extra['transitions'] += r.transitions
            acc.extra['traces'] += r.traces
            acc.extra['max_depth'] = max(acc.extra['max_depth'], r.max_depth)
            acc.hist['frontier sizes %s' % (init[1] or 'TexArgs()')] = ' '.join(
                str(r.depth_hist[d]) for d in sorted(r.depth_hist))
            for smp in r.samples[-1:]:
                acc.sample(smp)
            for (h, op, exp, obs) in r.violations:
                case = {'init': list(init), 'history': [list(o) for o in h], 'op': list(op) if op else None}
                acc.violation('step', case, exp, obs, size=len(h) * 100 + len(init[1]))
            acc.digests.add(hash((init, r.states, r.transitions)))
    return acc


def replay(case):
    sysm = system()
    impl, model = sysm.fresh(tuple(case['init']))
    for op in [tuple(o) for o in case['history']] + [tuple(case['op'])]:
        bad = sysm.step(impl, model, op)
        if bad is not None:
            return [{'sub': 'step', 'expected': bad[0], 'observed': bad[1]}]
    return []


def snippet(v):
    c = v['case']
    return ('from TexSoup import TexSoup\nfrom TexSoup.data import TexArgs, BraceGroup, BracketGroup\n'
            '# owner: %r ; args = TexSoup(src).expr._contents[0].args (or TexArgs() for "bare")\n'
            '# apply, in order: %r then %r  ("str" = unparsed string, "obj" = group object)\n'
            '# expected (python list model): %r\n# observed: %r\n'
            % (c['init'], c['history'], c['op'], v['expected'], v['observed']))


SIGNATURES = {}


def coverage(tier, total):
    return {
        'states': int(total.extra['states']),
        'transitions': int(total.extra['transitions']),
        'traces_validated_against_impl': int(total.extra['traces']),
        'max_depth': depth_of(tier),
        'rule': 'BFS depth %d over append/extend/insert(every index -len-2..len+2)/remove/pop()/pop(i)/reverse/clear/editing one of the first three groups in place/'
                'indexing/slicing/args=args[::-1]/args=args[i:j] with groups %r given as strings and as objects, '
                'mismatched strings %r, whitespace strings; owners %r; state key (list, shadow list), '
                'deduplicated globally per owner; every operation of the menu executed from every distinct state'
                % (depth_of(tier), POOL, BAD, [i[1] for i in INITS]),
        'owners': len(INITS),
    }
