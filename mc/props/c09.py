"""C09 - arguments attach by the one-line-break rule with exact contents.
E-GRAM sub-grammar, deviation-bounded (DESIGN section 5, C09)"""
import itertools

from .. import gram
from ..canon import canon
from ..runner import Acc, make_classifier, seed
from . import egram

ID = 'C09'
LEVEL = 'exploration'
ASSUMPTIONS = [
    'only the quantified shape is generated: up to 3 bracket groups then up to 4 brace groups (mixed orders are outside the statement)',
    'the oracle is computed from the generator\'s own description of the run: attached = maximal prefix of groups whose '
    'separators are all attaching; the rest stays in the surrounding text character for character',
    'inside a bracket-argument context no detached bracket group / bare ] is generated (the first ] closes the argument, R5)',
]
ATTACHING = ['', ' ', '\t', '\n', ' \n ', '  ', '\t\n\t']
DETACHING = ['\n\n', ' \n\n', '\n \n', '\n\t\n', '\t\n\t\n', '.', '%c\n', 'a', 'é']


def N():
    return gram.Names(seed())


def sep_items(sep):
    if sep == '':
        return ()
    if sep == '%c\n':
        return (('CM', '%c'), ('T', '\n'))
    return (('T', sep),)


def bodies(n):
    """body key -> (items, allowed kinds)"""
    return {
        'a': ((('T', n.a),), '[{'),
        '': ((), '[{'),
        ']': ((('T', ']'),), '{'),
        '[': ((('T', '['),), '[{'),
        '{]}': ((('G{', (('T', ']'),)),), '['),
        'a{b}c': ((('T', n.a), ('G{', (('T', n.b),)), ('T', n.a)), '[{'),
        'cmd': ((('C', n.y, (('G{', (('T', n.a),)),), ()),), '[{'),
        ' a ': ((('T', ' ' + n.a + ' '),), '[{'),
        'g g': ((('G{', (('T', n.a),)), ('T', ' '), ('G{', (('T', n.b),))), '[{'),
    }


def contexts(n):
    y = n.y
    e = n.e
    return {
        'top': ('', '', lambda it: it),
        'env': ('\\begin{%s}' % e, '\\end{%s}' % e, lambda it: (('E', e, (), it),)),
        'group': ('{', '}', lambda it: (('G{', it),)),
        'brace': ('\\%s{' % y, '}', lambda it: (('C', y, (('G{', it),), ()),)),
        'bracket': ('\\%s[' % y, ']', lambda it: (('C', y, (('G[', it),), ()),)),
        'item': ('\\item ', '', lambda it: (('C', 'item', (), (('T', ' '),) + it),)),
        'm$': ('$', '$', lambda it: (('M', '$', it),)),
        'meq': ('\\begin{equation}', '\\end{equation}', lambda it: (('E', 'equation', (), it),)),
    }


def tails(n):
    return {
        '': ('', ()),
        ' a': (' ' + n.a, (('T', ' ' + n.a),)),
        '.{t}': (n.o + '{t}', (('T', n.o), ('G{', (('T', 't'),)))),
        '.[t]': (n.o + '[t]', (('T', n.o + '[t]'),)),
    }


def build(name, kinds, seps, bkeys, ctx, tail, n):
    """-> (src, expected items, attached count) or None if the combination is outside the domain"""
    B = bodies(n)
    pre, post, wrap = contexts(n)[ctx]
    ttext, titems = tails(n)[tail]
    if ctx == 'bracket' and tail == '.[t]':
        return None
    p = len(kinds)
    for j, s in enumerate(seps):
        if s in DETACHING:
            p = j
            break
    if seps and seps[0] == 'a':
        return None                               # would extend the command name (R1)
    src = '\\' + name
    args = []
    rest = []
    for j, (k, s, bk) in enumerate(zip(kinds, seps, bkeys)):
        bitems, allowed = B[bk]
        if k not in allowed:
            return None
        close = ']' if k == '[' else '}'
        btext = gram.render(bitems)
        src += s + k + btext + close
        if j < p:
            args.append(('G[' if k == '[' else 'G{', bitems))
        else:
            rest.extend(sep_items(s))
            if k == '{':
                rest.append(('G{', bitems))
            else:
                if ctx == 'bracket':
                    return None                   # a bare ] would close the enclosing argument (R5)
                rest.extend((('T', '['),) + bitems + (('T', ']'),))
    if ctx == 'bracket' and any(bk in (']',) for bk in bkeys):
        pass                                      # a ] inside braces is fine
    src = pre + src + ttext + post
    cmd = ('C', name, tuple(args), ())
    items = wrap((cmd,) + tuple(rest) + titems)
    return src, items, p


def check_case(acc, case, n=None):
    n = n or N()
    b = build(case['name'], case['kinds'], case['seps'], case['bodies'], case['ctx'], case['tail'], n)
    if b is None:
        return
    src, items, p = b
    size = len(src) + 100 * sum(1 for s in case['seps'] if s)
    soup, exc = egram.parse(src)
    c = dict(case, src=src)
    if exc is not None:
        acc.violation('parse', c, 'parsing succeeds', egram.exc_repr(exc), size)
        return
    want = gram.coalesce(items)
    got = canon(soup)
    if got != want:
        acc.violation('attachment', c, want, got, size)
        return
    out = str(soup)
    wout = gram.render(items)
    if out != wout:
        acc.violation('rest-not-preserved', c, wout, out, size)
        return
    # the observable named by the property: the command's args, kinds and exact text
    node = soup.find(case['name'])
    if node is None:
        acc.violation('find', c, 'the command is found', None, size)
        return
    # kind, text and the documented .string accessor (the characters between the delimiters)
    gota = [(type(a).__name__, str(a), str(getattr(a, 'string', None))) for a in node.args]
    wanta = [('BracketGroup' if k == '[' else 'BraceGroup', k + gram.render(bodies(n)[bk][0]) + (']' if k == '[' else '}'),
              gram.render(bodies(n)[bk][0]))
             for k, bk in list(zip(case['kinds'], case['bodies']))[:p]]
    if gota != wanta:
        acc.violation('args', c, wanta, gota, size)
        return
    acc.ok(hash(src), cls='attached=%d/%d' % (p, len(case['kinds'])))
    if acc.evals % 2003 == 1:
        acc.sample({'src': src, 'attached': p})


def shapes():
    for m in range(0, 4):
        for k in range(0, 5):
            yield '[' * m + '{' * k


NONEPS = [s for s in ATTACHING if s] + DETACHING


def sep_assignments(J, maxdev):
    """all separator vectors of length J with <= maxdev non-empty entries"""
    yield [''] * J
    for d in range(1, maxdev + 1):
        for pos in itertools.combinations(range(J), d):
            for vals in itertools.product(NONEPS, repeat=d):
                v = [''] * J
                for pp, val in zip(pos, vals):
                    v[pp] = val
                yield v


def cases(tier, part):
    n = N()
    B = list(bodies(n))
    C = list(contexts(n))
    Tl = list(tails(n))
    names = [n.x, n.y + '*']
    deep = 2 if tier == 'quick' else 3
    if part == 'A':
        # <= 2 (3) separator deviations, default bodies, top level, no tail
        for sh in shapes():
            J = len(sh)
            for v in sep_assignments(J, deep):
                yield {'name': names[0], 'kinds': list(sh), 'seps': v, 'bodies': ['a'] * J, 'ctx': 'top', 'tail': ''}
            for v in sep_assignments(J, 1):
                yield {'name': names[1], 'kinds': list(sh), 'seps': v, 'bodies': ['a'] * J, 'ctx': 'top', 'tail': ''}
    elif part == 'B':
        # <= 1 (2) separator deviations x every context x every tail
        for sh in shapes():
            J = len(sh)
            for v in sep_assignments(J, 1 if tier == 'quick' else 2):
                for ctx in C:
                    for tl in (Tl if tier == 'quick' else Tl[:3]):
                        if ctx == 'top' and tl == '':
                            continue
                        yield {'name': names[0], 'kinds': list(sh), 'seps': v, 'bodies': ['a'] * J, 'ctx': ctx, 'tail': tl}
    elif part == 'C':
        # <= 1 separator deviation x <= 1 (2) non-default bodies; thorough: in every context
        for sh in shapes():
            J = len(sh)
            if J == 0:
                continue
            for v in sep_assignments(J, 1):
                for nb in range(1, 2 if tier == 'quick' else 3):
                    for pos in itertools.combinations(range(J), nb):
                        for vals in itertools.product(B[1:], repeat=nb):
                            bs = ['a'] * J
                            for pp, val in zip(pos, vals):
                                bs[pp] = val
                            for ctx in (['top', 'bracket'] if tier == 'quick' else C):
                                yield {'name': names[0], 'kinds': list(sh), 'seps': v, 'bodies': bs, 'ctx': ctx, 'tail': ''}
    elif part == 'D':
        # brackets that do not follow a command are plain text needing no partner
        for txt in ('[', ']', '[' + n.a + ']', n.a + ']' + n.b + '[' + n.a, '[[', n.a + ' [', '(['):
            for ctx in C:
                if ctx == 'bracket' and ']' in txt:
                    continue
                yield {'text': txt, 'ctx': ctx}


def check_text(acc, case):
    n = N()
    pre, post, wrap = contexts(n)[case['ctx']]
    lead = n.o if case['ctx'] != 'top' else ''       # keep the bracket away from the context's own command head
    src = pre + lead + case['text'] + post
    items = wrap((('T', lead + case['text']),))
    soup, exc = egram.parse(src)
    c = dict(case, src=src)
    if exc is not None:
        acc.violation('bracket-text-parse', c, 'a bracket that does not follow a command needs no partner',
                      egram.exc_repr(exc), len(src))
        return
    if canon(soup) != gram.coalesce(items) or str(soup) != src:
        acc.violation('bracket-text', c, gram.coalesce(items), canon(soup), len(src))
        return
    acc.ok(hash(src), cls='bracket-text')


NPART = 24


def shards(tier):
    out = []
    for part in 'ABC':
        for i in range(NPART):
            out.append({'tier': tier, 'part': part, 'i': i})
    out.append({'tier': tier, 'part': 'D', 'i': 0})
    return out


def run_shard(shard):
    acc = Acc(make_classifier(ID, SIGNATURES))
    n = N()
    for idx, case in enumerate(cases(shard['tier'], shard['part'])):
        if shard['part'] != 'D' and idx % NPART != shard['i']:
            continue
        if 'text' in case:
            check_text(acc, case)
        else:
            check_case(acc, case, n)
    acc.extra['part_' + shard['part']] += acc.evals
    return acc


def replay(case):
    acc = Acc()
    if 'text' in case:
        check_text(acc, {k: case[k] for k in ('text', 'ctx')})
    else:
        check_case(acc, {k: case[k] for k in ('name', 'kinds', 'seps', 'bodies', 'ctx', 'tail')})
    return acc.viol


def snippet(v):
    c = v['case']
    return ('from TexSoup import TexSoup\nsoup = TexSoup(%r)\nprint(repr(soup.expr))\n# expected: %r\n'
            % (c['src'], v['expected']))


SIGNATURES = {}


def coverage(tier, total):
    return {
        'rule': 'commands %s with 0..3 bracket then 0..4 brace groups; separators at every junction from attaching %r and '
                'detaching %r; part A: <= %d separator deviations (default bodies, top level); part B: <= %d deviations x 8 '
                'contexts x tails; part C: <= 1 separator deviation x non-default group bodies %r; part D: partnerless '
                'brackets as text in every context.  distinct = distinct sources' % (
                    [N().x, N().y + '*'], ATTACHING, DETACHING, 2 if tier == 'quick' else 3, 1 if tier == 'quick' else 2,
                    list(bodies(N()))[1:]),
        'parts': {k: int(v) for k, v in total.extra.items() if k.startswith('part_')},
        'representatives': N().describe(),
    }
