"""C10 - comments are inert.  E-GRAM sub-grammar (DESIGN section 5, C10)"""
import itertools

from .. import gram
from ..canon import canon
from ..runner import Acc, make_classifier, seed
from . import egram

ID = 'C10'
LEVEL = 'exploration'
ASSUMPTIONS = [
    'the expected tree is the context with one comment leaf "%"+payload - it does not depend on the payload otherwise; '
    'for an odd number of backslashes only the benign payload is judged (a hostile payload after an escaped percent is '
    'simply an ill-formed document)',
    'names occurring only inside the payload must not be searchable: find_all counts are those of the bare context',
]


def N():
    return gram.Names(seed())


def payload_symbols(n):
    return ['{', '}', '[', ']', '$', '$$', '\\', '%', '\\begin{%s}' % n.e, '\\end{%s}' % n.e, '\\end{equation}', '\\item',
            '\\)', '\\]', '\\' + n.x, n.a, n.sp, '\\%s{%s}' % (n.x, n.a)]


def contexts(n):
    y, e = n.y, n.e
    return {
        'top': ('', '', lambda it: it, {}),
        'env': ('\\begin{%s}' % e, '\\end{%s}' % e, lambda it: (('E', e, (), it),), {e: 1}),
        'brace': ('\\%s{' % y, '}', lambda it: (('C', y, (('G{', it),), ()),), {y: 1}),
        'bracket': ('\\%s[' % y, ']', lambda it: (('C', y, (('G[', it),), ()),), {y: 1}),
        'group': ('{', '}', lambda it: (('G{', it),), {}),
        'item': ('\\item ', '', lambda it: (('C', 'item', (), (('T', ' '),) + it),), {'item': 1}),
        'm$': ('$', '$', lambda it: (('M', '$', it),), {}),
        'm$$': ('$$', '$$', lambda it: (('M', '$$', it),), {}),
        'm(': ('\\(', '\\)', lambda it: (('M', '\\(', it),), {}),
        'm[': ('\\[', '\\]', lambda it: (('M', '\\[', it),), {}),
        'meq': ('\\begin{equation}', '\\end{equation}', lambda it: (('E', 'equation', (), it),), {'equation': 1}),
    }


def check_case(acc, case):
    n = N()
    pre, post, wrap, names = contexts(n)[case['ctx']]
    k = case['backslashes']
    payload = case['payload']
    eof = case['eof']
    nl = case.get('nl', '\n')
    body_src = n.a + '\\' * k + '%' + payload + ('' if eof else nl + n.b)
    src = pre + body_src + (post if not eof else '')
    size = len(payload) * 10 + k + len(pre)
    if k % 2 == 0:
        inner = (('T', n.a + '\\' * k), ('CM', '%' + payload)) + (() if eof else (('T', nl + n.b),))
    else:
        inner = (('T', n.a + '\\' * k + '%' + payload + ('' if eof else nl + n.b)),)
    want = gram.coalesce(wrap(inner))
    c = dict(case, src=src)
    soup, exc = egram.parse(src)
    if exc is not None:
        acc.violation('parse', c, 'parsing succeeds whatever the payload', egram.exc_repr(exc), size)
        return
    got = canon(soup)
    if got != want:
        acc.violation('tree-depends-on-payload', c, want, got, size)
        return
    if str(soup) != src:
        acc.violation('roundtrip', c, src, str(soup), size)
        return
    for name in (n.x, n.e, n.y, 'item', 'begin', 'end', 'equation'):
        try:
            cnt = soup.count(name)
        except Exception as e:
            acc.violation('search-raises', dict(c, name=name), names.get(name, 0), egram.exc_repr(e), size)
            return
        if cnt != names.get(name, 0):
            acc.violation('payload-searchable', dict(c, name=name), names.get(name, 0), cnt, size)
            return
    if k % 2 == 0:
        # a full-expression query for text that occurs only inside the payload finds nothing either
        for q in ('\\%s{%s}' % (n.x, n.a), '\\begin{%s}' % n.e if case['ctx'] != 'env' else '\\begin{zz}'):
            try:
                cnt, fnd = soup.count(q), len(soup.find_all(q))
            except Exception as e:
                acc.violation('search-raises', dict(c, name=q), 0, egram.exc_repr(e), size)
                return
            if cnt != 0 or fnd != 0:
                acc.violation('payload-searchable', dict(c, name=q), 0, [cnt, fnd], size)
                return
    acc.ok(hash(src), cls='comment' if k % 2 == 0 else 'escaped-percent')
    if acc.evals % 2003 == 1:
        acc.sample(src)


def cases(tier):
    n = N()
    syms = payload_symbols(n)
    maxlen = 3 if tier == 'quick' else 4
    payloads = ['c']
    for L in range(0, maxlen + 1):
        for t in itertools.product(syms, repeat=L):
            payloads.append(''.join(t))
    seen = set()
    payloads = [p for p in payloads if not (p in seen or seen.add(p))]
    for ctx in contexts(n):
        for k in range(0, 5):
            for eof in ((False, True) if ctx == 'top' else (False,)):
                for p in (payloads if k % 2 == 0 else ['c', n.a + ' ' + n.b]):
                    yield {'ctx': ctx, 'backslashes': k, 'payload': p, 'eof': eof}
                if not eof and k in (0, 1):
                    for p in (payloads[:400] if k == 0 else ['c']):          # the same line ended by a bare CR
                        yield {'ctx': ctx, 'backslashes': k, 'payload': p, 'eof': eof, 'nl': '\r'}


NPART = 32


def shards(tier):
    return [{'tier': tier, 'i': i} for i in range(NPART)]


def run_shard(shard):
    acc = Acc(make_classifier(ID, SIGNATURES))
    for idx, case in enumerate(cases(shard['tier'])):
        if idx % NPART == shard['i']:
            check_case(acc, case)
    return acc


def replay(case):
    acc = Acc()
    check_case(acc, {k: case[k] for k in ('ctx', 'backslashes', 'payload', 'eof', 'nl') if k in case})
    return acc.viol


def snippet(v):
    return 'from TexSoup import TexSoup\nsoup = TexSoup(%r)\nprint(repr(soup.expr))\n# expected: %r\n' % (
        v['case']['src'], v['expected'])


SIGNATURES = {}


def coverage(tier, total):
    n = N()
    return {
        'rule': 'every comment payload of <= %d symbols over %r, in 11 contexts (top, environment, brace / bracket argument, '
                'group, item, five math kinds), ended by LF (or by end of input at top level), preceded by 0..4 backslashes; '
                'absolute oracle: the context tree with exactly one comment leaf.  distinct = distinct sources'
                % (3 if tier == 'quick' else 4, payload_symbols(n)),
        'representatives': n.describe(),
    }
