"""Helpers shared by the E-GRAM checks."""
from .. import gram, layers
from ..canon import canon, types
from ..runner import bind

_TS = []


def texsoup():
    if not _TS:
        _TS.append(bind().TexSoup)
    return _TS[0]


def parse(src, **kw):
    """-> (soup, None) or (None, exception)"""
    try:
        return texsoup()(src, **kw), None
    except Exception as e:          # noqa: any exception is an observation here
        return None, e


def exc_repr(e):
    return '%s: %s' % (type(e).__name__, str(e)[:160])


def case_of(src, items, **extra):
    c = {'src': src, 'items': items}
    c.update(extra)
    return c


def size_of(src, items):
    return (gram.count_nodes(items) if items is not None else 50) * 1000 + len(src)


def nontext_nodes(items):
    """generator-side list of (start, text) for every construct that TexSoup exposes as a node: commands,
    environments, math regions and bare brace groups - argument groups themselves are not nodes."""
    out = []
    for d in gram.walk_all(gram.layout(items)):
        k = d['n'][0]
        if k in ('C', 'E', 'M'):
            out.append((d['s'], gram.text_of(d['n'])))
        elif k == 'G{' and 'a' not in d['path'][-2:-1]:
            out.append((d['s'], gram.text_of(d['n'])))
    return out
