"""Helpers shared by the E-GRAM checks."""
from .. import gram, layers
from ..canon import canon, types
from ..runner import bind

_TS = []


def texsoup():
    if not _TS:
        _TS.append(bind().TexSoup)
    return _TS[0]


def parse(src, **kw):
    """-> (soup, None) or (None, exception)"""
    try:
        return texsoup()(src, **kw), None
    except Exception as e:          # noqa: any exception is an observation here
        return None, e


def exc_repr(e):
    return '%s: %s' % (type(e).__name__, str(e)[:160])


def case_of(src, items, **extra):
    c = {'src': src, 'items': items}
    c.update(extra)
    return c


def size_of(src, items):
    return (gram.count_nodes(items) if items is not None else 50) * 1000 + len(src)


def nontext_nodes(items):
    """generator-side list of (start, text) for every construct that TexSoup exposes as a node: commands,
    environments, math regions and bare brace groups - argument groups themselves are not nodes."""
    out = []
    for d in gram.walk_all(gram.layout(items)):
        k = d['n'][0]
        if k in ('C', 'E', 'M'):
            out.append((d['s'], gram.text_of(d['n'])))
        elif k == 'G{' and 'a' not in d['path'][-2:-1]:
            out.append((d['s'], gram.text_of(d['n'])))
    return out


def observe(soup):
    """Look at every documented view of the tree once (text, views, searches, per-node text) and throw the results
    away.  Used by the edit checks to explore the order 'look, then edit' next to 'edit at once': whatever the
    library computes lazily has been computed by then, and must not survive the edit."""
    T = types()
    str(soup)
    repr(soup)
    soup.text
    soup.contents
    soup.children
    names = set()
    for d in soup.descendants:
        if isinstance(d, T['TexNode']):
            str(d)
            d.contents
            d.children
            d.text
            list(d.args)
            str(d.args)
            names.add(str(d.name))
            try:
                d.string
            except Exception:      # noqa: .string is not defined everywhere
                pass
    for nm in sorted(names):
        soup.find(nm)
        soup.find_all(nm)
        soup.count(nm)
        try:
            getattr(soup, nm)
        except Exception:          # noqa
            pass
