"""C15 - any history of edits keeps the tree equal to a reference model.
E-HIST: breadth-first search over edit histories on real trees in lock-step with a plain document model
(DESIGN section 5, C15)"""
import collections

from .. import gram, hist, layers
from ..models import M, container_of, mirror, resolve, text_leaves, walk
from ..runner import Acc, HarnessError, make_classifier, seed
from . import egram

ID = 'C15'
LEVEL = 'model_checking'
ASSUMPTIONS = [
    'the reference model is a structural mirror of the initial parse (pinned by C01/C02 on the same documents) and '
    'afterwards changes only through its own list operations',
    'targets are nodes (commands, environments, math regions, bare groups); text-leaf targets are C05\'s',
    'operations the API rejects by rule (append/insert on a command that is not \\item -> TypeError; .string where it is '
    'not defined -> AssertionError; list errors of argument operations) must leave the document unchanged',
    'text view compared modulo whitespace (segmentation of text runs and the dropping of blank leaves are not constrained)',
    'state key = (model dump, implementation dump with leaf Python types and shadow argument lists)',
]
NEW = {'Z': 'Z', 'N': '\\new{n}', 'ENV': '\\begin{n}\\new\\end{n}'}


def strip_ws(s):
    return ''.join(s.split())


class System:
    def __init__(self, menu='full'):
        self.T = egram.types()
        self.menu = menu

    # -- construction ---------------------------------------------------------------------------
    def fresh(self, init):
        soup, exc = egram.parse(init)
        if exc is not None:
            raise HarnessError('initial document does not parse: %r' % init)
        return {'soup': soup}, mirror(soup.expr, self.T)

    def make_new(self, kind, twin_text=None):
        """-> (object for the API, [model nodes])"""
        if kind == 'Z':
            return 'Z', [M('T', text='Z')]
        text = twin_text if kind == 'W' else NEW[kind]
        soup, exc = egram.parse(text)
        if exc is None and len(soup.expr._contents) == 1 and isinstance(soup.contents[0], self.T['TexNode']) \
                and str(soup.contents[0]) == text:
            return soup.contents[0].copy(), [mirror(soup.expr._contents[0], self.T)]
        return text, [M('T', text=text)]

    # -- addressing -----------------------------------------------------------------------------
    def expr_at(self, soup, path):
        e = soup.expr
        for step, i in path:
            e = e._contents[i] if step == 'b' else e.args[i]
        return e

    def node_for(self, soup, expr):
        if expr is soup.expr:
            return soup
        for d in soup.descendants:
            if isinstance(d, self.T['TexNode']) and d.expr is expr:
                return d
        return None

    # -- menu -----------------------------------------------------------------------------------
    def enabled(self, model):
        ops = []
        full = self.menu == 'full'
        nodes = [(p, n) for p, n in walk(model) if n.kind in ('C', 'E', 'M') or (n.kind == 'G{' and p[-1][0] == 'b')]
        conts = [((), model)] + [(p, n) for p, n in nodes if n.kind in ('E', 'M', 'G{') or (n.kind == 'C')]
        for p, n in nodes:
            ops.append(('delete', p))
            for r in ((('Z',), ('N',), ('W',), ('Z', 'N')) if full else (('Z',), ('W',))):
                ops.append(('replace_with', p, r))
            parent = resolve(model, p[:-1])
            in_arg = len(p) >= 2 and p[-2][0] == 'a'
            if p[-1][0] == 'b' and not in_arg and (parent.kind in ('ROOT', 'E', 'M', 'G{') or
                                                   (parent.kind == 'C' and parent.name == 'item')):
                ops.append(('remove', p))       # parent.remove looks at the parent's own body only
            if n.kind in ('C', 'E'):
                ops.append(('rename', p, 'renamed'))
                if full and n.name != 'Q':
                    ops.append(('rename', p, 'item' if n.kind == 'C' and n.name != 'item' else 'Q'))
            if n.kind in ('C', 'E', 'M'):
                ops.append(('string', p, 'Q'))
            if n.kind in ('C', 'E'):
                k = len(n.args)
                ops.append(('aappend', p, '{{n}}'))
                ops.append(('ainsert', p, 0, '[o]'))
                if full:
                    ops.append(('ainsert', p, k, '{a}'))
                    ops.append(('ainsert', p, -1, '[o]'))
                    ops.append(('aremove', p, '{a}'))
                    ops.append(('aclear', p))
                    ops.append(('asetprefix', p, max(k - 1, 0)))
                ops.append(('apop', p, -1))
                ops.append(('apop', p, 0))
                if k > 1 or full:
                    ops.append(('areverse', p))
                    ops.append(('asetrev', p))
        for p, n in conts:
            L = len(n.body)
            idxs = sorted({0, 1, L, L + 1}) if full else sorted({0, L})
            for i in idxs:
                for new in (('Z', 'N', 'ENV') if full else ('Z', 'ENV')):
                    ops.append(('insert', p, i, (new,)))
            ops.append(('insert', p, 0, ('Z', 'N')))
            ops.append(('append', p, ('N',)))
            # the documented "move" idiom: copy() a node of this document, delete the original, insert the copy
            if not (n.kind == 'C' and n.name != 'item'):
                for q, m in nodes:
                    if q == p or q[:len(p)] != p and p[:len(q)] == q:
                        continue                      # not into itself / its own subtree
                    if p[:len(q)] == q:
                        continue
                    owner = resolve(model, q[:-1])
                    if q[-1][0] == 'b' and owner.kind == 'C' and owner.name != 'item':
                        continue                      # the original could not be deleted (no-body rule)
                    src_list, _ = container_of(model, q)
                    ops.append(('move', q, p, 0, 'del-first'))
                    if src_list is not n.body:
                        ops.append(('move', q, p, len(n.body), 'ins-first'))
            if full:
                ops.append(('append', p, ('Z', 'ENV')))
        return ops

    # -- model semantics ------------------------------------------------------------------------
    def model_step(self, model, op, news):
        """apply op to the model.  -> None (accepted) or tuple of exception class names (rejected by rule)"""
        k = op[0]
        if k in ('delete', 'remove', 'replace_with'):
            owner = resolve(model, op[1][:-1])
            if op[1][-1][0] == 'b' and owner.kind == 'C' and owner.name != 'item':
                return ('TypeError',)      # same rule as insert/append: a command that is not \item has no body to edit
        if k in ('delete', 'remove'):
            lst, i = container_of(model, op[1])
            del lst[i]
            return None
        if k == 'replace_with':
            lst, i = container_of(model, op[1])
            lst[i:i + 1] = news
            return None
        if k == 'move':
            lst, idx = container_of(model, op[1])
            m = lst[idx]
            dest = resolve(model, op[2])
            if op[4] == 'del-first':
                del lst[idx]
                dest.body[op[3]:op[3]] = [m]
            else:
                dest.body[op[3]:op[3]] = [m.copy()]
                for j, x in enumerate(lst):
                    if x is m:
                        del lst[j]
                        break
            return None
        if k in ('insert', 'append'):
            c = resolve(model, op[1])
            if c.kind == 'C' and c.name != 'item':
                return ('TypeError',)
            if k == 'insert':
                i = op[2]
                c.body[i:i] = news
            else:
                c.body.extend(news)
            return None
        n = resolve(model, op[1])
        if k == 'rename':
            n.name = op[2]
            return None
        if k == 'string':
            if n.kind == 'C':
                if len(n.args) != 1:
                    return ('AssertionError',)
                n.args[0].body = [M('T', text=op[2])]
                return None
            leaves = [c for a in n.args for c in a.body] + list(n.body)
            leaves = [c for c in leaves if not (c.kind in ('T', 'CM') and c.text.isspace())]
            if len(leaves) != 1 or leaves[0].kind not in ('T', 'CM'):
                return ('AssertionError',)
            n.body = [M('T', text=op[2])]
            return None

        def group(txt):
            return M('G{' if txt[0] == '{' else 'G[', body=[M('T', text=txt[1:-1])] if txt[1:-1] else [])
        a = n.args
        try:
            if k == 'aappend':
                a.append(group(op[2]))
            elif k == 'ainsert':
                a.insert(op[2], group(op[3]))
            elif k == 'apop':
                a.pop(op[2])
            elif k == 'aremove':
                for j, g in enumerate(a):
                    if g.ser() == op[2]:
                        del a[j]
                        break
                else:
                    return ('ValueError',)
            elif k == 'areverse' or k == 'asetrev':
                a.reverse()
            elif k == 'aclear':
                del a[:]
            elif k == 'asetprefix':
                del a[op[2]:]
            else:
                raise HarnessError('unknown op %r' % (op,))
        except IndexError:
            return ('IndexError',)
        return None

    # -- one step on both sides ---------------------------------------------------------------------
    def step(self, impl, model, op):
        soup = impl['soup']
        k = op[0]
        target_expr = self.expr_at(soup, op[1])
        node = self.node_for(soup, target_expr)
        if node is None:
            return ({'node': 'reachable through descendants'}, {'node': None, 'op': list(op)})
        news_impl, news_model = [], []
        if k == 'replace_with':
            for x in op[2]:
                o, m = self.make_new(x, str(node))
                news_impl.append(o)
                news_model += m
        elif k in ('insert', 'append'):
            for x in (op[3] if k == 'insert' else op[2]):
                o, m = self.make_new(x)
                news_impl.append(o)
                news_model += m
        dest_node = None
        if k == 'move':
            dest_node = self.node_for(soup, self.expr_at(soup, op[2]))
            if dest_node is None:
                return ({'node': 'reachable through descendants'}, {'node': None, 'op': list(op)})
        rejected = self.model_step(model, op, news_model)
        exc = None
        try:
            if k == 'move':
                c = node.copy()
                if op[4] == 'del-first':
                    node.delete()
                    dest_node.insert(op[3], c)
                else:
                    dest_node.insert(op[3], c)
                    node.delete()
            elif k == 'delete':
                node.delete()
            elif k == 'remove':
                node.parent.remove(node)
            elif k == 'replace_with':
                node.replace_with(*news_impl)
            elif k == 'insert':
                node.insert(op[2], *news_impl)
            elif k == 'append':
                node.append(*news_impl)
            elif k == 'rename':
                node.name = op[2]
            elif k == 'string':
                node.string = op[2]
            elif k == 'aappend':
                node.args.append(op[2])
            elif k == 'ainsert':
                node.args.insert(op[2], op[3])
            elif k == 'apop':
                node.args.pop(op[2])
            elif k == 'aremove':
                node.args.remove(op[2])
            elif k == 'areverse':
                node.args.reverse()
            elif k == 'aclear':
                node.args.clear()
            elif k == 'asetrev':
                node.args = node.args[::-1]
            elif k == 'asetprefix':
                node.args = node.args[:op[2]]
            else:
                raise HarnessError('unknown op %r' % (op,))
        except HarnessError:
            raise
        except Exception as e:
            exc = e
        if exc is not None and (rejected is None or type(exc).__name__ not in rejected):
            return ({'outcome': 'accepted' if rejected is None else list(rejected)},
                    {'outcome': egram.exc_repr(exc)})
        return self.invariant(impl, model)

    # -- invariants -----------------------------------------------------------------------------
    def invariant(self, impl, model):
        soup = impl['soup']
        T = self.T
        want = model.ser()
        got = str(soup)
        if got != want:
            return ({'text': want}, {'text': got})
        # descendants: every model node exactly once, parents consistent
        wnodes = collections.Counter(n.ser() for p, n in walk(model)
                                     if n.kind in ('C', 'E', 'M') or (n.kind == 'G{' and p[-1][0] == 'b'))
        try:
            desc = list(soup.descendants)
        except Exception as e:
            return ({'descendants': 'computable'}, {'descendants': egram.exc_repr(e)})
        nodes = [d for d in desc if isinstance(d, T['TexNode'])]
        gnodes = collections.Counter(str(d) for d in nodes)
        if gnodes != wnodes:
            return ({'descendants': sorted(wnodes.elements())}, {'descendants': sorted(gnodes.elements())})
        if len({id(d.expr) for d in nodes}) != len(nodes):
            return ({'descendants': 'each node once'}, {'descendants': 'a node is listed twice'})
        bound = sum(wnodes.values()) + 2
        for d in nodes:
            par = d.parent
            if par is None:
                return ({'parent': 'set'}, {'parent': None, 'node': str(d)})
            pe = par.expr
            inside = any(c is d.expr for c in pe._contents) or \
                any(c is d.expr for a in pe.args if isinstance(a, T['TexExpr']) for c in a._contents)
            if not inside:
                return ({'parent': 'contains the node'}, {'parent': str(par)[:40], 'node': str(d)[:40]})
            q, steps = d, 0
            while q.parent is not None and steps <= bound:
                q = q.parent
                steps += 1
            if q.expr is not soup.expr:
                return ({'parent-chain': 'ends at the root'}, {'parent-chain': str(q)[:40], 'node': str(d)[:40]})
        # search
        by_name = collections.defaultdict(collections.Counter)
        for p, n in walk(model):
            if n.kind in ('C', 'E'):
                by_name[n.name][n.ser()] += 1
        for name in list(by_name) + ['zzz']:
            if not name or '{' in name or '[' in name:
                continue
            try:
                found = soup.find_all(name)
            except Exception as e:
                return ({'find_all': name}, {'find_all': egram.exc_repr(e)})
            g = collections.Counter(str(x) for x in found)
            if g != by_name.get(name, collections.Counter()):
                return ({'find_all:' + name: sorted(by_name.get(name, collections.Counter()).elements())},
                        {'find_all:' + name: sorted(g.elements())})
        # text view
        try:
            txt = ''.join(str(t) for t in soup.text)
        except Exception as e:
            return ({'text-view': 'computable'}, {'text-view': egram.exc_repr(e)})
        wtxt = ''.join(text_leaves(model))
        if strip_ws(txt) != strip_ws(wtxt):
            return ({'text-view': strip_ws(wtxt)}, {'text-view': strip_ws(txt)})
        return None

    def key(self, impl, model):
        return (model.dump(), self.dump(impl['soup'].expr))

    def dump(self, e):
        T = self.T
        if isinstance(e, T['TexText']):
            return ('t', type(e._text).__name__, str(e._text))
        if isinstance(e, T['TexNode']):
            return ('NODE', self.dump(e.expr))
        if isinstance(e, str):
            return ('s', type(e).__name__, str(e))
        return (type(e).__name__, str(e.name), tuple(self.dump(a) for a in e.args),
                tuple(self.dump(c) for c in e._contents), tuple(str(x) for x in getattr(e.args, 'all', ())))


_SYS = {}


def system(menu='full'):
    if menu not in _SYS:
        _SYS[menu] = System(menu)
    return _SYS[menu]


def core_docs():
    n = gram.Names(seed())
    x, y, e, a, b = n.x, n.y, n.e, n.a, n.b
    return [
        '\\%s{%s}%s\\%s{%s}' % (x, a, b, x, a),                      # twins at top level
        '\\%s{\\%s{%s}}{\\%s{%s}}' % (y, x, a, x, a),               # twins in two arguments
        '\\begin{%s}{\\%s}%s\\%s\\end{%s}' % (e, x, a, x, e),      # twin in an argument and in the body
        '\\begin{%s}%s\\begin{%s}%s\\end{%s}\\end{%s}' % (e, a, e, b, e, e),
        '{\\%s}{\\%s}' % (x, x),
        '\\item[\\%s] \\%s %s' % (x, x, a),
        '\\begin{itemize}\\item %s\\item %s\\end{itemize}' % (a, a),
        '$\\%s{%s}$%s$\\%s{%s}$' % (x, a, b, x, a),
        '\\[%s\\]' % a,
        '\\begin{equation}%s\\end{equation}' % a,
        '\\%s[%s]{%s}{%s}' % (x, b, a, a),
        '\\section{%s}\n\\textbf{%s}' % (a, a),
        '%s\\%s %s' % (a, x, b),
        '\\begin{%s}%s\\end{%s}' % (e, a, e),
        '\\begin{verbatim}$\\end{verbatim}%s' % a,
        '%%c\n\\%s{%s}' % (x, a),
    ]


def shards(tier):
    out = []
    # depth 1 from every document of the edit layers
    for s in layers.shards('hist-quick' if tier == 'quick' else 'hist-thorough', ('args',)):
        out.append(dict(s, kind='layer', depth=1, menu='full'))
    # depth 2 (3) from the core documents
    for d in core_docs():
        out.append({'kind': 'doc', 'src': d, 'depth': 2, 'menu': 'full' if tier != 'quick' else 'reduced'})
    if tier != 'quick':
        for d in core_docs()[:8]:
            out.append({'kind': 'doc', 'src': d, 'depth': 3, 'menu': 'reduced'})
    return out


def prepare(tier):
    layers.prepare('hist-quick' if tier == 'quick' else 'hist-thorough')


def explore_doc(acc, src, depth, menu):
    sysm = system(menu)
    soup, exc = egram.parse(src)
    if exc is not None or str(soup) != src:
        acc.extra['skipped_not_roundtripping'] += 1
        return
    try:
        r = hist.bfs(sysm, src, depth, max_violations=6)
    except hist.Divergence as d:
        # a prefix that was validated a moment ago behaves differently on a fresh parse: state survives between
        # parses (reported as history-dependent; the runner confirms it by re-running the shard in fresh processes)
        i = d.hist.index(d.op) if d.op in d.hist else len(d.hist) - 1
        case = {'init': src, 'history': [jsonop(o) for o in d.hist[:i]], 'op': jsonop(d.op), 'menu': menu, 'diverged': True}
        acc.violation('state-survives-fresh-parse', case, d.bad[0], d.bad[1], size=len(src))
        return
    acc.evals += r.transitions
    acc.extra['states'] += r.states
    acc.extra['transitions'] += r.transitions
    acc.extra['traces'] += r.traces
    acc.extra['max_depth'] = max(acc.extra['max_depth'], r.max_depth)
    acc.digests.add(hash((src, r.states, r.transitions)))
    if depth > 1 and r.samples:
        acc.sample(r.samples[-1])
    for (h, op, exp, obs) in r.violations:
        case = {'init': src, 'history': [jsonop(o) for o in h], 'op': jsonop(op) if op else None, 'menu': menu}
        acc.violation('step', case, exp, obs, size=len(h) * 1000 + len(src))


def jsonop(op):
    def conv(x):
        if isinstance(x, tuple):
            return [conv(i) for i in x]
        return x
    return conv(op)


def unjson(op):
    def conv(x, top=False):
        if isinstance(x, list):
            return tuple(conv(i) for i in x)
        return x
    return conv(op)


def run_shard(shard):
    acc = Acc(make_classifier(ID, SIGNATURES))
    if shard['kind'] == 'doc':
        explore_doc(acc, shard['src'], shard['depth'], shard['menu'])
        acc.hist['depth-%d documents' % shard['depth']] += 1
    else:
        for src, items in layers.iter_docs(shard):
            explore_doc(acc, src, 1, 'full')
            acc.hist['depth-1 documents'] += 1
    return acc


def replay(case):
    sysm = system(case.get('menu', 'full'))
    impl, model = sysm.fresh(case['init'])
    for op in [unjson(o) for o in case['history']] + [unjson(case['op'])]:
        bad = sysm.step(impl, model, op)
        if bad is not None:
            return [{'sub': 'step', 'expected': bad[0], 'observed': bad[1]}]
    return []


def snippet(v):
    c = v['case']
    return ('from TexSoup import TexSoup\nsoup = TexSoup(%r)\n# apply in order: %r then %r\n'
            '# (paths: [["b", i]] = i-th entry of a body list, ["a", j] = j-th argument; Z = "Z", N = copy of '
            'TexSoup("\\\\new{n}").contents[0], W = fresh twin of the target, ENV = copy of \\begin{n}\\new\\end{n})\n'
            '# expected (reference model): %r\n# observed: %r\n'
            % (c['init'], c['history'], c['op'], v['expected'], v['observed']))


SIGNATURES = {}


def coverage(tier, total):
    return {
        'states': int(total.extra['states']),
        'transitions': int(total.extra['transitions']),
        'traces_validated_against_impl': int(total.extra['traces']),
        'max_depth': 2 if tier == 'quick' else 3,
        'rule': 'BFS over edit histories (delete, replace_with, parent.remove, insert at 0/1/len/len+1, append, move (copy + delete + insert, both orders), rename, '
                '.string, argument-list append/insert/pop/remove/reverse/clear/args=args[::-1]/args=args[:k]) with plain '
                'strings, fresh nodes, fresh twins and a fresh environment as new material: depth 1 from every L_wf document '
                'of (%s) and the argument layer; depth 2 from %d core documents%s; after every step: text == model, '
                'descendants == model nodes (once each, parents consistent), find_all per name == model, text view == '
                'model leaves' % (', '.join('%s <= %d nodes' % p for p in layers.PLAN['hist-quick' if tier == 'quick' else 'hist-thorough']),
                                  len(core_docs()), '' if tier == 'quick' else '; depth 3 from 8 of them (reduced menu)'),
        'documents': dict(total.hist),
        'skipped_not_roundtripping': int(total.extra['skipped_not_roundtripping']),
    }
