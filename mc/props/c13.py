"""C13 - recorded source positions are true offsets.  E-GRAM + exhaustive small strings (DESIGN section 5, C13)"""
import collections
import itertools
import re

from .. import gram, layers
from ..runner import Acc, make_classifier, seed
from . import egram

ID = 'C13'
LEVEL = 'exploration'
ASSUMPTIONS = [
    'expected offsets are obtained by laying the parsed tree out in serialisation order; this is the source offset '
    'because the same document round-trips exactly (checked first; a document that does not is reported by C01, not here)',
    'LF line structure only (no CR) for the line/column map',
    'search_regex completeness is relative to the implementation\'s own text leaves, whose offsets part (i) validates',
]
PATTERNS = ['a', r'[a-z]+', r'\s+', r'\S+', '.', 'b|c', re.compile(r'[A-Za-z]\b')]


def lay_out(expr, off, T, out):
    """append (kind, expr-or-token, expected offset) for expr and everything below it; return end offset"""
    if isinstance(expr, T['TexText']):
        tok = expr._text
        out.append(('text', tok, off))
        return off + len(str(tok))
    if isinstance(expr, str):
        out.append(('text', expr, off))
        return off + len(str(expr))
    out.append(('node', expr, off))
    if isinstance(expr, T['TexCmd']):
        off += 1 + len(str(expr.name))
        for a in expr.args:
            off = lay_out(a, off, T, out)
        for c in expr._contents:
            off = lay_out(c, off, T, out)
        return off
    if isinstance(expr, T['TexEnv']):
        off += len(str(expr.begin))
        for a in expr.args:
            off = lay_out(a, off, T, out)
        for c in expr._contents:
            off = lay_out(c, off, T, out)
        return off + len(str(expr.end))
    raise TypeError(expr)


def line_col(src, i):
    return (src.count('\n', 0, i), i - (src.rfind('\n', 0, i) + 1))


def check_linecol(acc, src, soup, case, size):
    n = len(src)
    # every offset ascending, then descending, then ascending again, then jumping between the ends:
    # the answer must not depend on what was asked before
    order = list(range(n)) + list(range(n - 1, -1, -1)) + list(range(n))
    for k in range(n // 2):
        order += [n - 1 - k, k]
    for i in order:
        try:
            got = soup.char_pos_to_line(i)
        except Exception as e:
            acc.violation('char_pos_to_line', dict(case, offset=i), list(line_col(src, i)), egram.exc_repr(e), size)
            return False
        if tuple(got) != line_col(src, i):
            acc.violation('char_pos_to_line', dict(case, offset=i), list(line_col(src, i)), list(got), size)
            return False
    return True


def check_doc(acc, src, items):
    soup, exc = egram.parse(src)
    case = egram.case_of(src, items)
    size = egram.size_of(src, items)
    if exc is not None or str(soup) != src:
        acc.extra['not_roundtripping_skipped'] += 1      # C01's business
        return
    T = egram.types()
    out = []
    off = 0
    for c in soup.expr._contents:
        off = lay_out(c, off, T, out)
    # (i) every node, group and text token
    tokens = []
    for kind, x, want in out:
        pos = getattr(x, 'position', None)
        if pos != want:
            acc.violation('position-' + kind, case, [want, str(x)[:40]], [pos, str(x)[:40]], size)
            return
        if kind == 'text':
            tokens.append(x)
    # the positions users see through the node API
    for d in soup.descendants:
        p = getattr(d, 'position', None)
        if p is None or not src.startswith(str(d), p):
            acc.violation('position-descendant', case, 'src.startswith(str(d), d.position)', [p, str(d)[:40]], size)
            return
    # (ii) line/column of every offset
    if '\r' not in src and not check_linecol(acc, src, soup, case, size):
        return
    # (iii) regex search
    leaves = soup.text
    for pat in PATTERNS:
        try:
            got = list(soup.search_regex(pat))
        except Exception as e:
            acc.violation('search_regex-raises', dict(case, pattern=str(pat)), 'matches', egram.exc_repr(e), size)
            return
        want = collections.Counter()
        for leaf in leaves:
            for m in re.finditer(pat, str(leaf)):
                want[(leaf.position + m.start(), m.group())] += 1
        gotc = collections.Counter((m.position, str(m)) for m in got)
        if any(not src.startswith(t, p) for p, t in gotc):
            acc.violation('search_regex-offset', dict(case, pattern=str(pat)), 'src[m.position:...] == m',
                          sorted(gotc), size)
            return
        if gotc != want:
            acc.violation('search_regex-matches', dict(case, pattern=str(pat)), sorted(want), sorted(gotc), size)
            return
    # (iv) token arithmetic
    for ti, t in enumerate(tokens):
        s = str(t)
        if not s or len(s) > 8 or not hasattr(t, 'position'):
            continue
        derived = []
        n = len(s)
        for i in range(-n, n):
            derived.append(('t[%d]' % i, lambda t=t, i=i: t[i]))
        for i in range(-n, n + 1):
            for j in range(i, n + 1):
                if (i < 0) == (j < 0) or j == n:
                    derived.append(('t[%d:%d]' % (i, j), lambda t=t, i=i, j=j: t[i:j]))
        derived.append(('t[:]', lambda t=t: t[:]))
        derived.append(('t[1:]', lambda t=t: t[1:]))
        derived.append(('t[:-1]', lambda t=t: t[:-1]))
        derived += [('strip', lambda t=t: t.strip()), ('lstrip', lambda t=t: t.lstrip()), ('rstrip', lambda t=t: t.rstrip())]
        if ti + 1 < len(tokens) and t.position + n == getattr(tokens[ti + 1], 'position', None):
            derived.append(('t+next', lambda t=t, u=tokens[ti + 1]: t + u))
            derived.append(('t+=next', lambda t=t, u=tokens[ti + 1]: t.__iadd__(u)))
        derived.append(('t+str', lambda t=t: t + src[t.position + n:t.position + n + 2]))
        for k in (1, 2):
            if t.position >= k:
                derived.append(('str+t', lambda t=t, k=k: src[t.position - k:t.position] + t))
        for name, f in derived:
            try:
                r = f()
            except IndexError:
                continue
            except Exception as e:
                acc.violation('token-arithmetic', dict(case, token=[s, t.position], op=name), 'a token',
                              egram.exc_repr(e), size)
                return
            if str(r) == '':
                continue
            p = getattr(r, 'position', None)
            if p is None or not src.startswith(str(r), p):
                acc.violation('token-arithmetic', dict(case, token=[s, t.position], op=name),
                              'src.startswith(r, r.position)', [str(r), p], size)
                return
        chars = list(t)
        for k, c in enumerate(chars):
            if str(c) != s[k] or getattr(c, 'position', None) != t.position + k:
                acc.violation('token-arithmetic', dict(case, token=[s, t.position], op='list(t)'),
                              [s[k], t.position + k], [str(c), getattr(c, 'position', None)], size)
                return
    acc.ok(hash(src))
    acc.extra['positions'] += len(out)
    if acc.evals % 997 == 1:
        acc.sample({'src': src, 'positions_checked': len(out)})


def check_lines(acc, s):
    soup, exc = egram.parse(s)
    if exc is not None:
        acc.violation('parse', {'src': s, 'items': None, 'lines': True}, 'parses', egram.exc_repr(exc), len(s))
        return
    if check_linecol(acc, s, soup, {'src': s, 'items': None, 'lines': True}, len(s)):
        acc.ok(hash(('L', s)))
        acc.extra['linecol_strings'] += 1


def plan(tier):
    return 'nav-' + tier


def shards(tier):
    out = [dict(s, kind='doc') for s in layers.shards(plan(tier), ('neigh', 'args', 'char', 'nest10', 'sibs', 'long', 'samples'))]
    n = 10 if tier == 'quick' else 14
    for pre in itertools.product('a\n', repeat=4):
        out.append({'kind': 'lines', 'n': n, 'prefix': ''.join(pre)})
    out.append({'kind': 'lines', 'n': 3, 'prefix': ''})
    return out


def prepare(tier):
    layers.prepare(plan(tier))
    layers.prepare('quick') if False else None


def run_shard(shard):
    acc = Acc(make_classifier(ID, SIGNATURES))
    if shard['kind'] == 'doc':
        for src, items in layers.iter_docs(shard):
            check_doc(acc, src, items)
    else:
        pre = shard['prefix']
        for k in range(0, shard['n'] - len(pre) + 1):
            for t in itertools.product('a\n', repeat=k):
                check_lines(acc, pre + ''.join(t))
    return acc


def replay(case):
    acc = Acc()
    if case.get('lines'):
        check_lines(acc, case['src'])
    else:
        check_doc(acc, case['src'], gram.tuplify(case['items']) if case.get('items') is not None else None)
    return acc.viol


def snippet(v):
    c = v['case']
    return ('from TexSoup import TexSoup\nsrc = %r\nsoup = TexSoup(src)\n# %s: expected %r, observed %r  (%s)\n'
            % (c['src'], v['sub'], v['expected'], v['observed'],
               ', '.join('%s=%r' % (k, c[k]) for k in ('offset', 'pattern', 'token', 'op') if k in c)))


SIGNATURES = {}


def coverage(tier, total):
    return {
        'rule': 'every node, group and text token of every L_wf document of (%s), of the neighbour, argument and character layers, the sibling layer, six long documents, the samples and the nest layer to depth 10; '
                'char_pos_to_line at every offset of those documents and of all strings over {letter, LF} of length <= %d; '
                'search_regex for %d patterns on every document; indexing, slicing (positive and negative), stripping, '
                'iteration and concatenation of every text token of <= 8 characters' % (
                    ', '.join('%s <= %d nodes' % p for p in layers.PLAN[plan(tier)]), 10 if tier == 'quick' else 14,
                    len(PATTERNS)),
        'positions_checked': int(total.extra['positions']),
        'linecol_strings': int(total.extra['linecol_strings']),
        'skipped_not_roundtripping': int(total.extra['not_roundtripping_skipped']),
        'representatives': gram.Names(seed()).describe(),
    }
