"""C14 - renaming, re-stringing and re-argumenting change exactly that part.
E-GRAM + one edit step (DESIGN section 5, C14)"""
from .. import gram, layers
from ..canon import canon
from ..runner import Acc, make_classifier, seed
from . import egram
from .c03 import gen_index, key_of
from .c08 import admissible

ID = 'C14'
LEVEL = 'exploration'
ASSUMPTIONS = [
    'every edit is explored in two orders: at once on the fresh parse, and after every documented view, per-node text and '
    'search of the tree has been looked at once (lazily computed state must not survive the edit)',
    'targets: every command and named environment (math delimiter pseudo-names are not renamed); .string on single-argument '
    'commands and on argument-less environments / math regions whose only content is one text',
    'new names come from a pool of plain identifiers disjoint from every table that changes the reading; one of them is a '
    'name already present elsewhere in the document when there is one',
    're-parse comparison (same canonical tree) is skipped where the new text legitimately reads differently: a renamed '
    '\\item no longer owns its tail, a command stripped of all arguments, a verbatim-like environment renamed to an '
    'ordinary name, a fixed-signature command stripped of its brace argument, $..$ emptied to $$',
]
NEWNAMES = ['renamed', 'Q']
STRINGS = ['Q', 'Q R', '']


def node_targets(soup, T):
    out = []
    for d in soup.descendants:
        if isinstance(d, T['TexNode']):
            out.append(d)
    return out


def plan(src, items):
    soup, exc = egram.parse(src)
    if exc is not None or str(soup) != src:
        return None
    T = egram.types()
    ann, index, below, top = gen_index(items)
    names_in_doc = sorted({g['n'][1] for g in top if g['n'][0] in ('C', 'E')})
    out = []
    for k, node in enumerate(node_targets(soup, T)):
        g = index.get(key_of(node))
        if g is None:
            return None
        n = g['n']
        kind = n[0]
        if kind in ('C', 'E'):
            # rename
            pool = list(NEWNAMES)
            other = [x for x in names_in_doc if x != n[1] and x.isalpha() and x not in
                     ('item', 'begin', 'end', 'section', 'textbf', 'label', 'noindent', 'newcommand', 'renewcommand',
                      'providecommand', 'equation', 'verbatim', 'lstlisting', 'Verbatim', 'listing', 'verbatimtab')]
            if other:
                pool.append(other[0])
            for new in pool:
                t = src
                for (s, e) in reversed(g['name_spans']):
                    t = t[:s] + new + t[e:]
                out.append((['rename', k, new], t))
            # args
            na = len(n[2])
            if na:
                a0, a1 = g['args'][0]['s'], g['args'][-1]['e']
                texts = [src[a['s']:a['e']] for a in g['args']]
                seen = set()
                variants = [('rev', None, None)] + [('slice', 0, j) for j in range(0, na + 1)] + \
                           [('slice', i, j) for i in range(1, na + 1) for j in range(i, na + 1)]
                for v in variants:
                    new = texts[::-1] if v[0] == 'rev' else texts[v[1]:v[2]]
                    key = (v[0], tuple(new))
                    if key in seen:
                        continue
                    seen.add(key)
                    out.append((['args', k, list(v)], src[:a0] + ''.join(new) + src[a1:]))
            # string of a single-argument command
            if kind == 'C' and na == 1 and n[1] != 'item':
                a = g['args'][0]
                for sv in STRINGS:
                    out.append((['string', k, sv], src[:a['bs']] + sv + src[a['be']:]))
        if kind in ('E', 'M') and not (kind == 'E' and n[2]):
            body = n[3] if kind == 'E' else n[2]
            if len(body) == 1 and body[0][0] == 'T' and not body[0][1].isspace() and body[0][1] != '' \
                    and n[1] not in ('verbatim', 'lstlisting', 'Verbatim', 'listing', 'verbatimtab'):
                for sv in STRINGS:
                    if sv == '' and kind == 'M' and n[1] == '$':
                        continue          # $$ would be the display-math switch (R7): not a well-formed result
                    out.append((['string', k, sv], src[:g['bs']] + sv + src[g['be']:]))
    return out


def apply(src, edit, pre=False):
    soup, exc = egram.parse(src)
    if exc is not None:
        raise exc
    T = egram.types()
    if pre:
        egram.observe(soup)      # the order 'look at everything, then edit': nothing computed before may survive
    node = node_targets(soup, T)[edit[1]]
    op = edit[0]
    info = {'old': str(node.name), 'node': node}
    before = {}
    if op == 'rename':
        for nm in (info['old'], edit[2]):
            before[nm] = [id(x.expr) for x in soup.find_all(nm)]
        node.name = edit[2]
    elif op == 'string':
        node.string = edit[2]
    elif op == 'args':
        v = edit[2]
        if v[0] == 'rev':
            node.args = node.args[::-1]
        else:
            node.args = node.args[v[1]:v[2]]
    else:
        raise ValueError(edit)
    return soup, info, before


def check_edit(acc, src, items, edit, want, size, pre=False):
    case = {'src': src, 'items': items, 'edit': edit, 'pre': pre}
    try:
        soup, info, before = apply(src, edit, pre)
    except Exception as e:
        acc.violation('edit-raises', case, want, egram.exc_repr(e), size)
        return
    got = str(soup)
    if got != want:
        acc.violation('not-exact', case, want, got, size)
        return
    node = info['node']
    op = edit[0]
    # visible to subsequent searches
    if op == 'rename':
        old, new = info['old'], edit[2]
        a_old = [id(x.expr) for x in soup.find_all(old)]
        a_new = [id(x.expr) for x in soup.find_all(new)]
        me = id(node.expr)
        want_old = [x for x in before[old] if x != me] if old != new else before[old]
        want_new = sorted(before[new] + [me]) if old != new else sorted(before[new])
        if sorted(a_old) != sorted(want_old) or sorted(a_new) != want_new:
            acc.violation('search-after-rename', case, {'old': len(want_old), 'new': len(want_new)},
                          {'old': len(a_old), 'new': len(a_new)}, size)
            return
    else:
        found = [x for x in soup.find_all(str(node.name)) if x.expr is node.expr]
        if len(found) != 1:
            acc.violation('search-after-edit', case, 'the edited node is still found once under its name', len(found), size)
            return
    # re-parsing shows the same change
    skip_reparse = False
    T = egram.types()
    if isinstance(node.expr, T['TexCmd']) and info['old'] == 'item' and op == 'rename':
        skip_reparse = True
    if op == 'rename' and info['old'] in ('verbatim', 'lstlisting', 'Verbatim', 'listing', 'verbatimtab', 'newcommand', 'renewcommand', 'providecommand'):
        skip_reparse = 'all'         # the old name selected a special reading (opaque body / definition mode)
    if op == 'args' and len(node.args) == 0:
        skip_reparse = True          # the following characters may now be read as part of the name / as arguments
    if not admissible(got) or skip_reparse == 'all':
        acc.ok(hash((src, repr(edit), pre)), cls=op + ':reparse-outside-side-condition')
        return           # e.g. \\textbf stripped of its brace argument: the re-reading is outside C08/C16's domain
    s2, exc = egram.parse(got)
    if exc is not None:
        acc.violation('reparse-fails', case, 'TexSoup(new text) succeeds', egram.exc_repr(exc), size)
        return
    if str(s2) != got:
        acc.violation('reparse-text', case, got, str(s2), size)
        return
    if not skip_reparse and canon(s2) != canon(soup):
        acc.violation('reparse-tree', case, canon(soup), canon(s2), size)
        return
    acc.ok(hash((src, repr(edit), pre)), cls=op)


def check_doc(acc, src, items, only=None, only_pre=None):
    pl = plan(src, items)
    if pl is None:
        acc.extra['skipped_not_roundtripping'] += 1
        return
    size = egram.size_of(src, items)
    for edit, want in pl:
        if only is not None and edit != only:
            continue
        for pre in (False, True):
            if only_pre is None or only_pre == pre:
                check_edit(acc, src, items, edit, want, size, pre)
    if acc.evals % 499 == 1 and pl:
        acc.sample({'src': src, 'edit': pl[0][0], 'expected': pl[0][1]})


def plan_name(tier):
    return 'edit-' + tier


def shards(tier):
    return layers.shards(plan_name(tier), ('args', 'sibs'))


def prepare(tier):
    layers.prepare(plan_name(tier))


def run_shard(shard):
    acc = Acc(make_classifier(ID, SIGNATURES))
    for src, items in layers.iter_docs(shard):
        check_doc(acc, src, items)
        acc.extra['docs'] += 1
    return acc


def replay(case):
    acc = Acc()
    check_doc(acc, case['src'], gram.tuplify(case['items']), only=case['edit'], only_pre=case.get('pre'))
    return acc.viol


def snippet(v):
    c = v['case']
    return ('from TexSoup import TexSoup\nsoup = TexSoup(%r)\n# edit %r on the k-th node of soup.descendants\n'
            '# expected %r\n# observed %r\n' % (c['src'], c['edit'], v['expected'], v['observed']))


SIGNATURES = {}


def coverage(tier, total):
    return {
        'rule': 'every L_wf document of (%s) , of the argument layer and of the sibling layer (4-8 siblings); every command / named environment: name = each of %r '
                '(+ a name present elsewhere), args = reversed / every prefix / every slice; .string = each of %r where '
                'defined; exact splice on the source, search before/after, re-parse.  distinct = distinct (document, edit)'
                % (', '.join('%s <= %d nodes' % p for p in layers.PLAN[plan_name(tier)]), NEWNAMES, STRINGS),
        'documents': int(total.extra['docs']),
        'skipped_not_roundtripping': int(total.extra['skipped_not_roundtripping']),
        'edits_by_kind': dict(total.hist),
        'representatives': gram.Names(seed()).describe(),
    }
