"""C17 - the result depends only on the source text; parses are isolated.
E-ENV + E-HIST: all chunkings / input forms, all first-match orders of set-valued tables, a range of real
hash seeds, all interleavings of two parse-edit-observe sequences (DESIGN section 5, C17)"""
import io
import itertools
import json
import os
import shutil
import subprocess
import sys
import tempfile
import types as pytypes

from .. import gram, layers, strings
from ..canon import canon
from ..runner import Acc, HarnessError, REPO, VERIF, bind, make_classifier, seed
from . import egram
from .c07 import fingerprint

ID = 'C17'
LEVEL = 'model_checking'
ASSUMPTIONS = [
    'input forms: str, list / tuple / generator of chunks, list of lines, io.StringIO, a real file object (temporary file '
    'outside /repo and /verif)',
    'set-valued module tables are replaced by set subclasses whose iteration order the harness chooses; for a first-match '
    'scan the outcome depends only on which matching element comes first, so "e first, rest sorted" is run for every e',
    'real hash seeds are a finite confirmation sweep in fresh interpreters; the deciding exploration is the order sweep',
    'order independence (part 5): a leak from parse A into a later parse of B shows as a difference for B between the '
    'forward and the reversed sweep of a corpus containing both (unless B is also contaminated from the other side)',
    'isolation: observable influence only - module tables may change (memo caches are legitimate) as long as no later '
    'result does; "no shared mutable state" = disjoint reachable sets of mutable containers and expressions',
]
DELIMS = ['(', ')', '<', '>', '[', ']', '{', '}', '\\{', '\\}', '.', '|', '\\langle', '\\rangle', '\\lfloor', '\\rfloor',
          '\\lceil', '\\rceil', '\\ulcorner', '\\urcorner', '\\lbrack', '\\rbrack']
PREFIXES = ['left', 'right', 'big', 'Big', 'bigg', 'Bigg']
NONDELIMS = ['/', '\\|', 'a', '\\Vert', '\\' + 'q', '', ' ', '\\/', '*', '+']     # after a sizing prefix, outside the table
FOLLOW = ['', '(', ')', '<', '[', ']', '{', '}', '\\', '.', '|', 'a', ' ', 'g', '\\}']


def outcome(src, **kw):
    soup, exc = egram.parse(src, **kw)
    if exc is not None:
        return ('exc', type(exc).__name__)
    return ('ok',) + fingerprint(soup)


# ---------------------------------------------------------------------------------------------
# part 1: input forms

def compositions(s):
    n = len(s)
    if n == 0:
        yield []
        return
    for mask in range(1 << (n - 1)):
        parts, start = [], 0
        for i in range(n - 1):
            if mask >> i & 1:
                parts.append(s[start:i + 1])
                start = i + 1
        parts.append(s[start:])
        yield parts


def forms_of(src, tmpdir, deep):
    """(label, factory) - factory() builds a fresh input object"""
    out = []
    n = len(src)
    if n <= 6:
        for parts in compositions(src):
            out.append(('list %r' % (parts,), lambda parts=parts: list(parts)))
        for parts in ([''] + [src], [src, ''], ['', src[:n // 2], '', src[n // 2:], ''], list(src)):
            out.append(('list+empty %r' % (parts,), lambda parts=parts: list(parts)))
            out.append(('tuple+empty %r' % (parts,), lambda parts=parts: tuple(parts)))
    else:
        cuts = range(0, n + 1) if (deep or n <= 40) else range(0, n + 1, max(1, n // 24))
        for i in cuts:
            out.append(('list 2-split@%d' % i, lambda i=i: [src[:i], src[i:]]))
        if deep and n <= 24:
            for i in range(0, n + 1, 2):
                for j in range(i, n + 1, 3):
                    out.append(('list 3-split@%d,%d' % (i, j), lambda i=i, j=j: [src[:i], src[i:j], src[j:]]))
    h = n // 2
    for parts in (list(src), [src[:h], src[h:]], [src]):
        out.append(('tuple %d chunks' % len(parts), lambda parts=parts: tuple(parts)))
        out.append(('generator %d chunks' % len(parts), lambda parts=parts: (p for p in parts)))
    out.append(('lines', lambda: src.splitlines(True)))
    out.append(('StringIO', lambda: io.StringIO(src)))

    def fileobj():
        path = os.path.join(tmpdir, 'in.tex')
        with open(path, 'w', encoding='utf8', newline='') as f:
            f.write(src)
        return open(path, encoding='utf8', newline='')
    out.append(('file', fileobj))
    return out


def check_forms(acc, src, tmpdir, deep):
    want = outcome(src)
    for label, mk in forms_of(src, tmpdir, deep):
        obj = mk()
        try:
            got = outcome(obj)
        finally:
            if hasattr(obj, 'close'):
                obj.close()
        acc.extra['form_parses'] += 1
        if got != want:
            acc.violation('input-form', {'part': 1, 'src': src, 'form': label}, list(want[:2]), list(got[:2]),
                          size=len(src))
            return
    acc.ok(hash(('form', src)), cls='forms')
    if acc.evals % 499 == 1:
        acc.sample({'part': 1, 'src': src, 'forms': [f[0] for f in forms_of(src, tmpdir, deep)][:6]})


# ---------------------------------------------------------------------------------------------
# part 2: owning set iteration order

class OrderedSet(set):
    """a set whose iteration order is chosen by the harness"""
    _order = ()

    def __iter__(self):
        return iter(self._order)


def find_tables():
    """module-level sets of strings in the TexSoup package: {id: (set object, [(module, name)])}"""
    bind()
    import TexSoup
    out = {}
    for modname, mod in list(sys.modules.items()):
        if not (modname == 'TexSoup' or modname.startswith('TexSoup.')) or mod is None:
            continue
        for name, val in vars(mod).items():
            if isinstance(val, (set, frozenset)) and val and all(isinstance(x, str) for x in val):
                out.setdefault(id(val), (val, []))[1].append((mod, name))
    return out


def sizing_corpus():
    out = []
    for p in PREFIXES:
        for d in DELIMS:
            for f in FOLLOW:
                out.append('$a\\%s%s%s b$' % (p, d, f))
    for p in PREFIXES:
        for nd in NONDELIMS:
            out.append('$a\\%s%s b$' % (p, nd))
    n = gram.Names(seed())
    out += ['\\newcommand{\\%s}{\\begin{%s}}' % (n.x, n.e), '\\renewcommand{\\%s}{%s}' % (n.x, n.a),
            '$\\left.|%s\\right|.$' % n.a, '\\big.|', '$\\bigg\\}\\}$']
    return out


def check_orders(acc, table_key, part=0, parts=1):
    tables = find_tables()
    corpus = sizing_corpus()
    if 'PUNCTUATION' not in table_key:
        corpus = corpus[::7] + corpus[-5:]       # tables that are only used for membership tests: a thinner corpus
    base = {s: outcome(s) for s in corpus}
    for tid, (val, places) in tables.items():
        label = '%s.%s' % (places[0][0].__name__, places[0][1])
        if label != table_key:
            continue
        elems = sorted(val)
        for ei, e in enumerate(elems):
            if ei % parts != part:
                continue
            order = [e] + [x for x in elems if x != e]
            os_ = OrderedSet(val)
            os_._order = tuple(order)
            for mod, name in places:
                setattr(mod, name, os_)
            try:
                for s in corpus:
                    got = outcome(s)
                    acc.extra['order_parses'] += 1
                    if got != base[s]:
                        acc.violation('set-order', {'part': 2, 'table': label, 'first': e, 'src': s},
                                      list(base[s][:2]), list(got[:2]), size=len(s))
                        break
            finally:
                for mod, name in places:
                    setattr(mod, name, val)
            acc.ok(hash(('order', label, e)), cls='orders')
            acc.extra['orders'] += 1
            if acc.extra['orders'] == 1:
                acc.sample({'part': 2, 'table': label, 'first_element': e, 'inputs': corpus[:3]})


# ---------------------------------------------------------------------------------------------
# part 3: real hash seeds in fresh interpreters

SEED_SCRIPT = r'''
import sys, json, hashlib
sys.path.insert(0, %(verif)r)
from mc.props import c17
h = hashlib.blake2b(digest_size=8)
for s in c17.sizing_corpus() + c17.pool_sources():
    h.update(repr(c17.outcome(s)).encode('utf8', 'surrogatepass'))
print(h.hexdigest())
'''


def check_seeds(acc, seeds):
    digs = {}
    procs = []
    for sd in seeds:
        env = dict(os.environ, PYTHONHASHSEED=str(sd), PYTHONDONTWRITEBYTECODE='1')
        procs.append((sd, subprocess.Popen([sys.executable, '-c', SEED_SCRIPT % {'verif': VERIF}], env=env,
                                           stdout=subprocess.PIPE, stderr=subprocess.PIPE, text=True)))
    for sd, p in procs:
        out, err = p.communicate()
        if p.returncode != 0:
            raise HarnessError('seed run %s failed: %s' % (sd, err[-300:]))
        digs[sd] = out.strip()
        acc.extra['seed_runs'] += 1
    if len(set(digs.values())) != 1:
        # find one differing input in-process is not possible (this process has one seed): report the digests
        acc.violation('hash-seed', {'part': 3, 'seeds': [str(s) for s in seeds]}, 'one digest for every PYTHONHASHSEED',
                      digs, size=1)
    else:
        acc.ok(hash(('seeds', tuple(seeds))), cls='seeds')


# ---------------------------------------------------------------------------------------------
# part 5: the order of parses within one process does not matter (fresh interpreters, forward vs reversed)

ORDER_SCRIPT = r"""
import sys, json, hashlib
sys.path.insert(0, %(verif)r)
from mc.props import c17
L = c17.order_corpus(%(which)r)
idx = list(range(len(L)))
if %(rev)r:
    idx.reverse()
out = [None] * len(L)
for i in idx:
    out[i] = hashlib.blake2b(repr(c17.outcome(L[i])).encode('utf8', 'surrogatepass'), digest_size=8).hexdigest()
print(json.dumps(out))
"""


def order_corpus(which):
    if which == 'sizing':
        return sizing_corpus() + pool_sources()
    syms = strings.sigma('full')
    k = int(which[5:])
    part = [syms[k]] if k < len(syms) else ['']
    return [a + b + c for a in part for b in [''] + syms for c in [''] + syms]


def check_order_independence(acc, which):
    runs = {}
    procs = []
    for rev in (False, True):
        env = dict(os.environ, PYTHONDONTWRITEBYTECODE='1')
        procs.append((rev, subprocess.Popen([sys.executable, '-c', ORDER_SCRIPT % {'verif': VERIF, 'which': which, 'rev': rev}],
                                            env=env, stdout=subprocess.PIPE, stderr=subprocess.PIPE, text=True)))
    for rev, p in procs:
        out, err = p.communicate()
        if p.returncode != 0:
            raise HarnessError('order run %s/%s failed: %s' % (which, rev, err[-300:]))
        runs[rev] = json.loads(out)
    L = order_corpus(which)
    for i, s in enumerate(L):
        acc.extra['order_independence_parses'] += 2
        if runs[False][i] != runs[True][i]:
            acc.violation('parse-order', {'part': 5, 'which': which, 'index': i, 'src': s},
                          'the same outcome whether the corpus is parsed first-to-last or last-to-first (fresh interpreter each)',
                          {'forward': runs[False][i], 'reversed': runs[True][i]}, size=len(s))
            return
    acc.ok(hash(('order-independence', which)), cls='parse-order')
    if which == 'sizing':
        acc.sample({'part': 5, 'corpus': which, 'sources': len(L), 'orders': ['forward', 'reversed']})


# ---------------------------------------------------------------------------------------------
# part 4: isolation

def pool():
    """(source, parse kwargs, edit name)"""
    n = gram.Names(seed())
    x, y, e, a, b = n.x, n.y, n.e, n.a, n.b
    return [
        ('\\%s{%s}%s' % (x, a, b), {}, 'rename'),
        ('\\%s{%s}%s' % (x, a, b), {}, 'args.append'),
        ('\\%s[%s]{%s}' % (x, b, a), {}, 'args.reverse'),
        ('\\%s' % x, {}, 'args.append'),
        ('\\begin{%s}%s\\end{%s}' % (e, a, e), {}, 'append'),
        ('\\begin{%s}{%s}%s\\end{%s}' % (e, a, b, e), {}, 'rename'),
        ('{%s}\\%s' % (a, x), {}, 'delete'),
        ('\\item %s' % a, {}, 'append'),
        ('\\begin{itemize}\\item %s\\item %s\\end{itemize}' % (a, b), {}, 'delete'),
        ('$%s$' % a, {}, 'string'),
        ('$$\\%s{%s}$$' % (x, a), {}, 'delete'),
        ('\\[%s\\]' % a, {}, 'string'),
        ('\\begin{equation}%s\\end{equation}' % a, {}, 'rename'),
        ('\\section %s' % a, {}, 'arg.string'),
        ('\\textbf %s' % a, {}, 'arg.string'),
        ('\\section{%s}' % a, {}, 'arg.string'),
        ('\\textbf{%s}' % a, {}, 'string'),
        ('$\\left(%s\\right)$' % a, {}, 'delete'),
        ('\\begin{foobar}$\\end{foobar}', {'skip_envs': ('foobar',)}, 'rename'),
        ('\\begin{foobar}\\%s{%s}\\end{foobar}' % (x, a), {}, 'append'),
        ('\\begin{verbatim}{\\end{verbatim}', {}, 'rename'),
        ('\\newcommand{\\%s}{\\begin{%s}}' % (x, e), {}, 'args.reverse'),
        ('%%c\n%s' % a, {}, 'insert'),
        ('\\%s{%s}{%s}' % (y, a, a), {}, 'args.pop'),
        ('%s' % a, {}, 'insert'),
        ('\\%s{%s}' % (y, b), {}, 'append+mutate'),
        ('$\\infty$', {}, 'args.append'),
        ('\\noindent %s\\cup' % a, {}, 'args.append'),
        ('%s\r\n\\%s\r\n{%s}' % (a, x, b), {}, 'rename'),
    ]


def pool_sources():
    return [p[0] for p in pool()]


def do_edit(soup, edit):
    T = egram.types()
    nodes = [d for d in soup.descendants if isinstance(d, T['TexNode'])]
    first = nodes[0] if nodes else None
    try:
        if edit == 'rename':
            first.name = 'renamed'
        elif edit == 'args.append':
            first.args.append('{n}')
        elif edit == 'append+mutate':
            first.args.append('{n}')
            first.args[-1].string = 'Q'
        elif edit == 'args.reverse':
            first.args.reverse()
        elif edit == 'args.pop':
            first.args.pop(0)
        elif edit == 'append':
            first.append('Z')
        elif edit == 'insert':
            soup.insert(0, 'Z')
        elif edit == 'delete':
            first.delete()
        elif edit == 'string':
            first.string = 'Q'
        elif edit == 'arg.string':
            first.args[0].string = 'X'
    except Exception as e:
        return 'raised ' + type(e).__name__
    return 'done'


def observe(soup):
    try:
        return (str(soup), canon(soup))
    except Exception as e:
        return ('observe raised', type(e).__name__)


def run_program(entry):
    """parse -> edit -> observe, solo"""
    src, kw, edit = entry
    soup, exc = egram.parse(src, **kw)
    if exc is not None:
        return ('exc', type(exc).__name__)
    r = do_edit(soup, edit)
    return (r,) + observe(soup)


def check_pair(acc, ia, ib, solo):
    P = pool()
    A, B = P[ia], P[ib]
    # every interleaving of A's three steps with B's three steps
    for pos in itertools.combinations(range(6), 3):
        order = ['B'] * 6
        for p in pos:
            order[p] = 'A'
        st = {'A': {'step': 0, 'entry': A}, 'B': {'step': 0, 'entry': B}}
        res = {}
        for who in order:
            s = st[who]
            src, kw, edit = s['entry']
            if s['step'] == 0:
                s['soup'], s['exc'] = egram.parse(src, **kw)
            elif s['step'] == 1:
                s['edit'] = do_edit(s['soup'], edit) if s['exc'] is None else None
            else:
                res[who] = ('exc', type(s['exc']).__name__) if s['exc'] is not None else (s['edit'],) + observe(s['soup'])
            s['step'] += 1
        acc.extra['interleavings'] += 1
        acc.extra['operations'] += 6
        for who, idx in (('A', ia), ('B', ib)):
            if repr(res[who]) != solo[idx]:
                acc.violation('interference', {'part': 4, 'a': ia, 'b': ib, 'schedule': ''.join(order), 'victim': who,
                                               'a_src': A[0], 'b_src': B[0], 'a_edit': A[2], 'b_edit': B[2]},
                              solo[idx][:300], repr(res[who])[:300], size=ia + ib)
                return
    acc.ok(hash(('pair', ia, ib)), cls='pairs')
    if ib == (ia + 1) % len(P):
        acc.sample({'part': 4, 'a': [A[0], A[2]], 'b': [B[0], B[2]], 'schedules': 20, 'example_schedule': 'ABABAB'})


MUTABLE = (list, dict, set, bytearray)


def reachable(root):
    """ids of every mutable container and every expression object reachable from a parse result"""
    T = egram.types()
    seen = {}
    stack = [root]
    while stack:
        o = stack.pop()
        if o is None or isinstance(o, (str, int, float, bool, type, pytypes.FunctionType, pytypes.ModuleType,
                                       pytypes.BuiltinFunctionType, pytypes.MethodType)):
            continue
        import enum
        if isinstance(o, enum.Enum):
            continue
        if id(o) in seen:
            continue
        if isinstance(o, (tuple, frozenset)):
            stack.extend(o)
            continue
        seen[id(o)] = o
        if isinstance(o, dict):
            stack.extend(o.values())
        elif isinstance(o, (list, set)):
            stack.extend(o)
            if hasattr(o, '__dict__'):
                stack.extend(vars(o).values())
        elif hasattr(o, '__dict__'):
            stack.extend(vars(o).values())
    return seen


def check_twice(acc, entry):
    src, kw, edit = entry
    s1, e1 = egram.parse(src, **kw)
    s2, e2 = egram.parse(src, **kw)
    if (e1 is None) != (e2 is None) or type(e1) is not type(e2):
        acc.violation('parse-twice', {'part': 4, 'src': src, 'twice': True}, egram.exc_repr(e1) if e1 else 'parses',
                      egram.exc_repr(e2) if e2 else 'parses', size=len(src))
        return
    if e1 is not None:
        acc.ok(hash(('twice', src)), cls='twice')
        return
    if fingerprint(s1) != fingerprint(s2):
        acc.violation('parse-twice', {'part': 4, 'src': src, 'twice': True}, list(fingerprint(s1)[:2]),
                      list(fingerprint(s2)[:2]), size=len(src))
        return
    r1, r2 = reachable(s1), reachable(s2)
    shared = [r1[i] for i in r1 if i in r2]
    shared = [o for o in shared if not (isinstance(o, (list, dict, set)) and len(o) == 0 and False)]
    if shared:
        acc.violation('shared-mutable-state', {'part': 4, 'src': src, 'twice': True}, 'disjoint object graphs',
                      [type(o).__name__ + ':' + repr(o)[:60] for o in shared[:4]], size=len(src))
        return
    acc.ok(hash(('twice', src)), cls='twice')


# ---------------------------------------------------------------------------------------------

def shards(tier):
    out = []
    plan = 'fault-quick' if tier == 'quick' else 'small-quick'
    for s in layers.shards(plan, ()):
        out.append(dict(s, kind='forms-doc', deep=tier != 'quick'))
    for s in strings.shards('tiny'):
        for i in range(16):
            out.append(dict(s, kind='forms-sigma', deep=tier != 'quick', part=i, parts=16))
    out.append({'kind': 'forms-samples', 'deep': tier != 'quick'})
    for tid, (val, places) in find_tables().items():
        k = 16 if len(val) > 40 else 1
        for i in range(k):
            out.append({'kind': 'orders', 'table': '%s.%s' % (places[0][0].__name__, places[0][1]), 'i': i, 'k': k})
    nseeds = 8 if tier == 'quick' else 64
    for lo in range(0, nseeds, 8):
        out.append({'kind': 'seeds', 'seeds': list(range(lo, lo + 8)) + (['random'] if lo == 0 else [])})
    P = pool()
    for ia in range(len(P)):
        out.append({'kind': 'pairs', 'a': ia})
    out.append({'kind': 'twice'})
    out.append({'kind': 'order', 'which': 'sizing'})
    for k in range(len(strings.sigma('full')) + 1):
        out.append({'kind': 'order', 'which': 'sigma%d' % k})
    return out


_SOLO = []

SOLO_SCRIPT = r'''
import sys
sys.path.insert(0, %(verif)r)
from mc.props import c17
print(repr(c17.run_program(c17.pool()[%(i)d])))
'''


def prepare(tier):
    layers.prepare('fault-quick' if tier == 'quick' else 'small-quick')
    # solo baselines: every pool program alone, each in its own fresh interpreter
    procs = []
    for i in range(len(pool())):
        env = dict(os.environ, PYTHONDONTWRITEBYTECODE='1')
        procs.append(subprocess.Popen([sys.executable, '-c', SOLO_SCRIPT % {'verif': VERIF, 'i': i}], env=env,
                                      stdout=subprocess.PIPE, stderr=subprocess.PIPE, text=True))
    del _SOLO[:]
    for i, p in enumerate(procs):
        out, err = p.communicate()
        if p.returncode != 0:
            raise HarnessError('solo run %d failed: %s' % (i, err[-300:]))
        _SOLO.append(out.strip())


def run_shard(shard):
    acc = Acc(make_classifier(ID, SIGNATURES))
    kind = shard['kind']
    if kind.startswith('forms'):
        tmpdir = tempfile.mkdtemp(prefix='texsoup-c17-', dir='/tmp')
        try:
            if kind == 'forms-doc':
                for src, items in layers.iter_docs(shard):
                    check_forms(acc, src, tmpdir, shard['deep'])
            elif kind == 'forms-sigma':
                for j, s in enumerate(strings.iter_strings(shard)):
                    if j % shard.get('parts', 1) == shard.get('part', 0):
                        check_forms(acc, s, tmpdir, shard['deep'])
            else:
                for path, text in layers.sample_texts():
                    check_forms(acc, text, tmpdir, False)
                n = gram.Names(seed())
                for text in ('%s\r\n%s' % (n.a, n.b), '\\%s\r\n{%s}' % (n.x, n.a), '%s\r%s\n\r\n' % (n.a, n.b),
                             '%%c\r\n%s' % n.a, '\\%s\n\r{%s}\r\n\r\n' % (n.x, n.a), '\r\n', '\n\r\n'):
                    check_forms(acc, text, tmpdir, True)
        finally:
            shutil.rmtree(tmpdir, ignore_errors=True)
    elif kind == 'orders':
        check_orders(acc, shard['table'], shard.get('i', 0), shard.get('k', 1))
    elif kind == 'seeds':
        check_seeds(acc, shard['seeds'])
    elif kind == 'pairs':
        P = pool()
        # non-initial process state: the whole pool is parsed and edited once before the pairs are run
        for entry in P:
            run_program(entry)
        if not _SOLO:
            prepare('quick')
        solo = list(_SOLO)
        for ib in range(len(P)):
            check_pair(acc, shard['a'], ib, solo)
    elif kind == 'order':
        check_order_independence(acc, shard['which'])
    elif kind == 'twice':
        for entry in pool():
            check_twice(acc, entry)
        n = gram.Names(seed())
        for src in ('\\%s' % n.x, '{}', '$$', '\\item', ''):
            check_twice(acc, (src, {}, None))
        # every string here brings a character the process has never seen: what is remembered at first sight must not
        # change the second parse
        for src in strings.fresh_char_strings(3):
            check_twice(acc, (src, {}, None))
    return acc


def replay(case):
    acc = Acc()
    part = case.get('part')
    if part == 1:
        tmpdir = tempfile.mkdtemp(prefix='texsoup-c17-', dir='/tmp')
        try:
            want = outcome(case['src'])
            for label, mk in forms_of(case['src'], tmpdir, True):
                if label == case['form']:
                    obj = mk()
                    got = outcome(obj)
                    if hasattr(obj, 'close'):
                        obj.close()
                    if got != want:
                        acc.violation('input-form', case, list(want[:2]), list(got[:2]))
        finally:
            shutil.rmtree(tmpdir, ignore_errors=True)
    elif part == 2:
        tables = find_tables()
        for tid, (val, places) in tables.items():
            if '%s.%s' % (places[0][0].__name__, places[0][1]) != case['table']:
                continue
            base = outcome(case['src'])
            elems = sorted(val)
            os_ = OrderedSet(val)
            os_._order = tuple([case['first']] + [x for x in elems if x != case['first']])
            for mod, name in places:
                setattr(mod, name, os_)
            try:
                got = outcome(case['src'])
            finally:
                for mod, name in places:
                    setattr(mod, name, val)
            if got != base:
                acc.violation('set-order', case, list(base[:2]), list(got[:2]))
    elif part == 5:
        check_order_independence(acc, case['which'])
    elif part == 3:
        check_seeds(acc, [int(s) if s != 'random' else s for s in case['seeds']])
    elif case.get('twice'):
        check_twice(acc, (case['src'], {}, None))
        if not acc.viol:
            for entry in pool():
                if entry[0] == case['src']:
                    check_twice(acc, entry)
    else:
        P = pool()
        for entry in P:
            run_program(entry)
        if not _SOLO:
            prepare('quick')
        solo = list(_SOLO)
        full = Acc()
        check_pair(full, case['a'], case['b'], solo)
        acc.viol = [v for v in full.viol if v['case'].get('schedule') == case.get('schedule')] or full.viol
    return acc.viol


def snippet(v):
    c = v['case']
    return '# C17 part %s: %s\n# expected %r\n# observed %r\n' % (c.get('part'), json.dumps(c)[:400], v['expected'], v['observed'])


SIGNATURES = {}


def coverage(tier, total):
    ex = total.extra
    return {
        'states': int(ex['form_parses'] + ex['orders'] + ex['seed_runs'] + ex['interleavings']),
        'transitions': int(ex['form_parses'] + ex['order_parses'] + ex['operations']),
        'traces_validated_against_impl': int(ex['interleavings']),
        'rule': 'part 1: every composition into chunks (sources <= 6 characters) / every 2-split of every L_wf document of the '
                'small layers, of all <=3-symbol strings of the core token alphabet and of tests/samples, as list, tuple, '
                'generator, lines, StringIO and file; part 2: for every module-level set of strings in TexSoup.* and every '
                'element e, iteration order "e first" x %d sizing-command inputs (6 prefixes x 22 delimiters x %d following '
                'characters); part 3: PYTHONHASHSEED 0..%d and random in fresh interpreters; part 4: every interleaving (20) '
                'of parse-edit-observe for every ordered pair of %d pool programs, from a process that has already parsed and '
                'edited the whole pool; same source parsed twice -> equal trees with disjoint reachable mutable state; part 5: '
                'the sizing corpus + pool sources, and every string of <= 3 symbols of the full token alphabet (one corpus per '
                'first symbol), parsed first-to-last and last-to-first in two fresh interpreters: every outcome equal'
                % (len(sizing_corpus()), len(FOLLOW), 7 if tier == 'quick' else 63, len(pool())),
        'input_form_parses': int(ex['form_parses']),
        'orders_explored': int(ex['orders']),
        'order_parses': int(ex['order_parses']),
        'seed_runs': int(ex['seed_runs']),
        'order_independence_parses': int(ex['order_independence_parses']),
        'interleavings': int(ex['interleavings']),
        'tables': sorted('%s.%s' % (p[0][0].__name__, p[0][1]) for v, p in find_tables().values()),
    }
