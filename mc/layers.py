"""Document layers of E-GRAM (DESIGN.md section 3): which L_wf documents a tier explores, cut into
deterministic shards.  Every layer is enumerated completely; nothing is sampled."""
import glob
import os

from . import gram
from .runner import REPO, seed

_ALPHA = {}


def alpha(name, sd=None):
    sd = seed() if sd is None else sd
    key = (name, sd)
    if key not in _ALPHA:
        _ALPHA[key] = {'full': gram.full, 'core': gram.core, 'char': char_alpha, 'twin': twin_alpha,
                       'search': search_alpha}[name](sd)
    return _ALPHA[key]


def char_alpha(sd=0):
    """character layer: exotic characters as text atoms (C01/C02 only; R12)"""
    N = gram.Names(sd)
    texts = ['\r', '\t', '~', '&', '#', '^', '_', 'é', ' ', ' ', N.a + '\r' + N.a, '\t' + N.a, '\r\n', N.a + '\r\n' + N.b, '\x0c']
    cont = {'cmd{}', 'cmd[]', 'group', 'env', 'env{}', 'item', 'item[]', 'm$', 'm[', 'meq'}
    return gram.Alphabet('A_char', N, texts, cont, star=False, eof_comment=False, cr_comment=True)


def search_alpha(sd=0):
    """the same name as command and as environment, nested through every container kind (C03)"""
    N = gram.Names(sd)
    N.x = N.e
    cont = {'cmd{}', 'cmd[]', 'group', 'env', 'env{}', 'item', 'item[]', 'm$', 'meq'}
    return gram.Alphabet('A_search', N, [N.a], cont, star=False, comment=False, eof_comment=False)


def twin_alpha(sd=0):
    """tiny alphabet whose symbols repeat, so textual twins arise everywhere (C05/C14/C15)"""
    N = gram.Names(sd)
    cont = {'cmd{}', 'cmd{}{}', 'group', 'env', 'env{}', 'item', 'item[]', 'm$'}
    return gram.Alphabet('A_twin', N, [N.a, N.sp], cont, star=False, comment=False, eof_comment=False)


# tier -> list of (alphabet, max nodes)
PLAN = {
    'quick': [('full', 3), ('core', 4)],
    'thorough': [('full', 3), ('core', 5), ('search', 5)],
    'edit-quick': [('full', 2), ('core', 2), ('twin', 3)],
    'edit-thorough': [('full', 2), ('core', 3), ('twin', 4)],
    'search-quick': [('full', 2), ('core', 3), ('search', 4)],
    'search-thorough': [('full', 2), ('core', 4), ('search', 5)],
    'nav-quick': [('full', 2), ('core', 4), ('search', 3)],
    'nav4-quick': [('full', 3), ('core', 4), ('search', 3)],
    'nav4-thorough': [('full', 3), ('core', 5), ('search', 4)],
    'nav-thorough': [('full', 3), ('core', 5), ('search', 4)],
    'fault-quick': [('full', 2), ('core', 2)],
    'fault-thorough': [('full', 2), ('core', 3)],
    'hist-quick': [('full', 2), ('twin', 2)],
    'hist-thorough': [('full', 2), ('core', 3), ('twin', 3)],
    'small-quick': [('full', 2), ('core', 3)],
    'small-thorough': [('full', 3), ('core', 4)],
    'ws-thorough': [('full', 2), ('core', 4)],
}
NSHARDS = 64


def shards(plan, extra=()):
    """Shards for the alphabets of PLAN[plan] plus the named extra layers."""
    out = []
    for name, nmax in PLAN[plan]:
        for n in range(1, nmax + 1):
            k = (1 if n <= 1 else 16) if n <= 3 else NSHARDS
            if n >= 5 or (name == 'full' and n >= 4):
                k = 256
            for i in range(k):
                out.append({'layer': 'alpha', 'alpha': name, 'n': n, 'i': i, 'k': k})
    for e in extra:
        if e == 'neigh':
            for i in range(32):
                out.append({'layer': 'neigh', 'i': i, 'k': 32})
        elif e == 'char':
            for i in range(8):
                out.append({'layer': 'char', 'i': i, 'k': 8})
        elif e == 'args':
            for i in range(16):
                out.append({'layer': 'args', 'i': i, 'k': 16})
        elif e == 'order':
            out.append({'layer': 'order'})
        elif e == 'samples':
            out.append({'layer': 'samples'})
        elif e == 'long':
            out.append({'layer': 'long'})
        elif e == 'sibs':
            for i in range(4):
                out.append({'layer': 'sibs', 'i': i, 'k': 4})
        elif e in ('nest', 'nest10'):
            # nest10: depths <= 10 only (for checks whose own observations - or the library's .text - grow fast with depth)
            for i in range(8):
                out.append({'layer': 'nest', 'i': i, 'k': 8, 'maxdepth': 10 if e == 'nest10' else 40})
    return out


def prepare(plan):
    """Materialise the memoised sub-forests in the parent so that forked workers share them."""
    for name, nmax in PLAN[plan]:
        a = alpha(name)
        for n in range(1, nmax):
            a.forests(gram.TOP, n)
        if nmax >= 1:
            for k in range(1, nmax + 1):
                a.trees(gram.TOP, k)


def iter_docs(shard):
    """Yield (text, items) for one shard; items is None for the sample layer."""
    layer = shard['layer']
    if layer == 'alpha':
        a = alpha(shard['alpha'])
        yield from iter_top(a, shard['n'], shard['i'], shard['k'])
    elif layer == 'neigh':
        yield from neighbour_docs(alpha('full'), shard['i'], shard['k'])
    elif layer == 'char':
        yield from char_docs(shard['i'], shard['k'])
    elif layer == 'args':
        for j, d in enumerate(args_docs()):
            if j % shard.get('k', 1) == shard.get('i', 0):
                yield d
    elif layer == 'order':
        yield from order_docs()
    elif layer == 'long':
        for items in long_docs():
            yield gram.render(items), items
    elif layer == 'sibs':
        for j, d in enumerate(sibs_docs()):
            if j % shard.get('k', 1) == shard.get('i', 0):
                yield d
    elif layer == 'nest':
        for j, d in enumerate(nest_docs(shard.get('maxdepth', 40))):
            if j % shard.get('k', 1) == shard.get('i', 0):
                yield d
    elif layer == 'samples':
        for path, text in sample_texts():
            yield text, None


def iter_top(a, n, i, k):
    """Documents with exactly n nodes; shard i of k by index of the leading tree."""
    idx = 0
    for size in range(1, n + 1):
        rests = a.forests(gram.TOP, n - size)
        for tr in a.trees(gram.TOP, size):
            mine = (idx % k == i)
            idx += 1
            if not mine:
                continue
            for rest in rests:
                if gram.compatible(tr, rest):
                    yield tr[0] + rest[0], tr[1] + rest[1]


# ---------------------------------------------------------------------------------------------
# neighbour layer: every ordered pair of constructs, every separator, every container kind

SEPS = ['', ' ', '\n', '\n\n']


def constructs(a, ctx):
    """one-node elements plus every container with each hole filled by one text `a`"""
    N = a.N
    out = list(a.trees(ctx, 1))
    seen = {e[0] for e in out}
    for label, kind, holes, build, headinfo in a.containers(ctx):
        fs = []
        ok = True
        for j, h in enumerate(holes):
            f = (N.a, (('T', N.a),), 'text', 'text')
            if not gram.hole_ok(h, f, headinfo, j, len(holes)):
                f = (' ' + N.a, (('T', ' ' + N.a),), 'text', 'text')      # e.g. \item needs a blank before a letter
                if not gram.hole_ok(h, f, headinfo, j, len(holes)):
                    ok = False
                    break
            fs.append(f)
        if not ok:
            continue
        txt, items = build(fs)
        if txt not in seen:
            seen.add(txt)
            out.append((txt, items, kind))
    return out


def outer_wrappers(a):
    """(label, hole context, wrap(forest) -> (text, items), headinfo)"""
    out = [('top', gram.TOP, lambda f: (f[0], f[1]), None)]
    for label, kind, holes, build, headinfo in a.containers(gram.TOP):
        if len(holes) != 1 or label.startswith('defn:'):
            continue
        if label in ('section{}', 'textbf{}', 'label{}', 'm('):
            continue
        out.append((label, holes[0], (lambda f, build=build: build([f])), headinfo))
    # the body of an environment with an argument, the second argument of a command, a definition body
    for label, kind, holes, build, headinfo in a.containers(gram.TOP):
        if label in ('cmd{}{}', 'env{}', 'item[]', 'defn:newcommand'):
            N = a.N
            filler = (N.a, (('T', N.a),), 'text', 'text')

            def wrap(f, build=build, holes=holes, filler=filler):
                return build([filler] * (len(holes) - 1) + [f])
            out.append((label + ':last', holes[-1], wrap, headinfo))
    return out


def neighbour_docs(a, i, k):
    idx = 0
    for label, hctx, wrap, headinfo in outer_wrappers(a):
        cons = constructs(a, hctx)
        for L in cons:
            for R in cons:
                mine = (idx % k == i)
                idx += 1
                if not mine:
                    continue
                for sep in SEPS:
                    if sep:
                        if L[2] == 'text' or R[2] == 'text':
                            continue          # would merge with the separator text (covered by the text atoms)
                        mid = (sep, (('T', sep),), 'text')
                        restR = (R[0], R[1], R[2], R[2])
                        if not gram.compatible(mid, restR):
                            continue
                        rest = (sep + R[0], mid[1] + R[1], 'text', R[2])
                    else:
                        rest = (R[0], R[1], R[2], R[2])
                    if not gram.compatible(L, rest):
                        continue
                    f = (L[0] + rest[0], L[1] + rest[1], L[2], R[2])
                    nh = 1 if label == 'top' else None
                    if label != 'top':
                        # position of the hole within its container: the last one
                        nholes = 1 if ':last' not in label else {'cmd{}{}': 2, 'env{}': 2, 'item[]': 2,
                                                                   'defn:newcommand': 1}[label.split(':last')[0]]
                        if not gram.hole_ok(hctx, f, headinfo, nholes - 1, nholes):
                            continue
                    txt, items = wrap(f)
                    yield txt, items


def char_docs(i, k):
    a = alpha('char')
    f = alpha('full')
    idx = 0
    # exotic characters alone / paired, at top level and inside every one-hole container of A_char
    wrappers = [('top', gram.TOP, lambda fo: (fo[0], fo[1]), None)]
    for label, kind, holes, build, headinfo in a.containers(gram.TOP):
        if len(holes) == 1:
            wrappers.append((label, holes[0], (lambda fo, build=build: build([fo])), headinfo))
        elif label in ('env{}', 'item[]'):
            N = a.N
            filler = (N.a, (('T', N.a),), 'text', 'text')
            wrappers.append((label, holes[-1], (lambda fo, build=build, filler=filler: build([filler, fo])), headinfo))
    for label, hctx, wrap, headinfo in wrappers:
        nholes = 2 if label in ('env{}', 'item[]') else 1
        for n in (1, 2):
            for fo in a.forests(hctx, n):
                mine = (idx % k == i)
                idx += 1
                if not mine:
                    continue
                if label != 'top' and not gram.hole_ok(hctx, fo, headinfo, nholes - 1, nholes):
                    continue
                yield wrap(fo)
        # an exotic character next to each construct of the full alphabet
        for c in constructs(f, hctx):
            for t in a.texts:
                for order in (0, 1):
                    mine = (idx % k == i)
                    idx += 1
                    if not mine:
                        continue
                    te = (t, (('T', t),), 'text')
                    if c[2] == 'text':
                        continue
                    if order == 0:
                        L, R = te, c
                    else:
                        L, R = c, te
                    if not gram.compatible(L, (R[0], R[1], R[2], R[2])):
                        continue
                    fo = (L[0] + R[0], L[1] + R[1], L[2], R[2])
                    if label != 'top' and not gram.hole_ok(hctx, fo, headinfo, nholes - 1, nholes):
                        continue
                    yield wrap(fo)


# ---------------------------------------------------------------------------------------------
# argument layer: up to 2 bracket then up to 3 brace groups with repeating bodies (textual twins among arguments)

def args_docs():
    import itertools
    a = alpha('full')
    N = a.N
    bodies = [(), (('T', N.a),), (('T', N.b),)]
    for m in range(0, 3):
        for n in range(0, 4):
            if m + n == 0:
                continue
            for combo in itertools.product(bodies, repeat=m + n):
                args = tuple((('G[' if j < m else 'G{'), b) for j, b in enumerate(combo))
                for items in ((('C', N.x, args, ()),),
                              (('E', N.e, args, (('T', N.a),)),),
                              (('T', N.a), ('C', N.x, args, ()), ('T', N.o))):
                    yield gram.render(items), items


# ---------------------------------------------------------------------------------------------
# sibling layer: one level, many siblings (thresholds in the count / "only the k-th occurrence")

def sibs_docs():
    """4, 5, 6 and 8 siblings of two alternating kinds {command with argument, environment, group, inline math},
    separated by a one-character text; same-kind runs of commands, environments and groups also unseparated"""
    a = alpha('full')
    N = a.N
    unit = {
        'c': ('C', N.x, (('G{', (('T', N.a),)),), ()),
        'e': ('E', N.e, (), (('T', N.a),)),
        'g': ('G{', (('T', N.a),)),
        'm': ('M', '$', (('T', N.a),)),
    }
    for count in (4, 5, 6, 8):
        for ka in 'cegm':
            for kb in 'cegm':
                items = []
                for j in range(count):
                    items.append(unit[ka if j % 2 == 0 else kb])
                    if j < count - 1:
                        items.append(('T', N.o))
                items = tuple(items)
                yield gram.render(items), items
        for k in 'ceg':
            items = tuple(unit[k] for _ in range(count))
            yield gram.render(items), items


# ---------------------------------------------------------------------------------------------
# long layer: a few documents far beyond the node bounds (thresholds in counts, lengths and offsets)

def long_docs():
    a = alpha('full')
    N = a.N
    cmd = ('C', N.x, (('G{', (('T', N.a),)),), ())
    items = []
    for j in range(300):
        items += [cmd, ('T', N.o)]
    yield tuple(items)                                                  # 300 commands, 300 texts: offsets > 1500
    yield (('G{', (('T', N.a * 3000),)),)                               # one text run of 3000 characters
    yield (('C', N.x, tuple(('G{', (('T', N.a),)) for _ in range(70)), ()),)   # 70 arguments
    yield (('E', 'itemize', (), tuple(('C', 'item', (), (('T', ' ' + N.a + '\n'),)) for _ in range(100))),)
    yield (('T', (N.a + '\n') * 400), cmd)                              # 400 lines before a command
    yield tuple(('M', '$', (('T', N.a),)) if j % 2 == 0 else ('T', ' ' + N.b + ' ') for j in range(200))


# ---------------------------------------------------------------------------------------------
# nest layer: one path, many levels (thresholds in the nesting depth)

NEST_DEPTHS = (5, 6, 7, 8, 9, 10, 12, 16, 24, 40)


def nest_docs(maxdepth=40):
    """two container kinds alternating down to depths 5..40 around one text; every ordered pair of
    {group, command with brace argument, command with bracket argument, environment, environment with argument,
    item in a group}; a sibling text after every closer at the even levels"""
    a = alpha('full')
    N = a.N

    def wrap(kind, inner, d):
        tail = (('T', N.o),) if d % 2 == 0 else ()
        if kind in ('e', 'e{', 'i') and inner[0][0] == 'G{':
            inner = (('T', N.o),) + inner         # R2: a group directly after the head would attach to it
        if kind == 'g':
            return (('G{', inner),) + tail
        if kind == 'c{':
            return (('C', N.x, (('G{', inner),), ()),) + tail
        if kind == 'c[':
            return (('C', N.y, (('G[', inner),), ()),) + tail
        if kind == 'e':
            return (('E', N.e, (), inner),) + tail
        if kind == 'e{':
            return (('E', N.e, (('G{', (('T', N.b),)),), inner),) + tail
        return (('G{', (('C', 'item', (), (('T', ' '),) + inner),)),) + tail
    kinds = ['g', 'c{', 'c[', 'e', 'e{', 'i']
    for depth in NEST_DEPTHS:
        if depth > maxdepth:
            continue
        for ka in kinds:
            for kb in kinds:
                if depth > 12 and ka != kb and (kinds.index(ka) + kinds.index(kb)) % 2:
                    continue                      # the deepest nests: half of the mixed pairs
                items = (('T', N.a),)
                for d in range(depth, 0, -1):
                    items = wrap(ka if d % 2 else kb, items, d)
                yield gram.render(items), items


# ---------------------------------------------------------------------------------------------
# order layer: the same command name at different depths below successive siblings (find vs find_all[0])

def order_docs():
    import itertools
    a = alpha('full')
    N = a.N
    leaf = ('C', N.x, (), ())

    def wrap(kind, inner):
        if kind == 'g':
            return ('G{', (inner,))
        if kind == 'c':
            return ('C', N.y, (('G{', (inner,)),), ())
        if kind == 'e':
            return ('E', N.e, (), (inner,))
        return ('M', '$', (inner,))
    chains = [()]
    for d in (1, 2, 3):
        chains += list(itertools.product('gce$', repeat=d)) if d < 3 else [('g', 'g', 'g'), ('c', 'e', 'g'), ('e', 'c', 'c')]

    def ok(chain):
        for o, i in zip(chain, chain[1:]):
            if (o, i) in (('$', '$'), ('e', 'g')):
                return False          # R7: $ inside $ ; R2: a group at the start of an environment body is its argument
        return True
    chains = [c for c in chains if ok(c)]

    def build(chain):
        n = leaf
        for k in reversed(chain):
            n = wrap(k, n)
        return n
    for c1 in chains:
        for c2 in chains:
            items = (build(c1), ('T', N.o), build(c2))
            yield gram.render(items), items
            if len(c1) + len(c2) <= 3:
                items = (build(c1), ('T', N.o), build(c2), ('T', N.o), build(c1))
                yield gram.render(items), items


def mixed_arg_strings():
    """plain strings: a command with <= 3 groups in every order (also brace-then-bracket) and a whitespace tail"""
    import itertools
    a = alpha('full')
    N = a.N
    groups = ['{%s}' % N.a, '[%s]' % N.b, '{}']
    tails = ['', ' ', '\n', '\n\n', '\n\n\\' + N.y, ' ' + N.a, '\n\n' + N.a, ' {%s}' % N.a, '\n[%s]' % N.b, '\n\n{%s}' % N.a,
             '\n\n\n', ' \n \n', '\n\n[']
    for k in range(1, 4):
        for gs in itertools.product(groups, repeat=k):
            for t in tails:
                yield '\\' + N.x + ''.join(gs) + t
                yield '$\\' + N.x + ''.join(gs) + t + '$'
    # the four fixed-signature commands with their mandatory arguments brace-delimited, followed by further groups
    # and a tail: counts that are exhausted must stay exhausted (nothing after the signature is swallowed or invented)
    for name, req in (('def', 2), ('textbf', 1), ('section', 1), ('label', 1)):
        for k in range(req, req + 3):
            for gs in itertools.product(groups, repeat=k):
                for t in ('', N.a, ' ' + N.a, '\n' + N.a, '\\' + N.y, '\n\n' + N.a):
                    yield '\\' + name + ''.join(gs) + t


# ---------------------------------------------------------------------------------------------
# environment names far from the name pool (plain strings for the E-STR checks)

ENV_NAMES = ['[tex]', 'tex', 'a]', '[a', 'a[b]', 'a b', ' a', 'a ', 'a*', '*', 'a1', '1', '\u00e9', 'a.b', 'a-b', 'a:b', 'a_b',
             'a,b', 'a|b', 'a&b', 'a#', 'a~', 'math', 'displaymath', 'document', 'item', 'begin', 'end', 'verbatimx',
             'xverbatim', 'a$', 'a%', 'a\\b', 'a{b}', 'equation*', 'align*', 'itemize', 'BraceGroup', 'None', '',
             'textbf', 'def', 'section', 'label', 'newcommand', 'left', 'big', 'verb', 'par', 'math*', 'lstlisting*']


def env_name_strings():
    """\\begin{NAME}..\\end{NAME} for names outside the usual pool - brackets, blanks, digits, punctuation, the
    names the library uses internally, near-misses of the built-in verbatim names - in eight small shapes"""
    a = alpha('full')
    N = a.N
    for nm in ENV_NAMES:
        b, e = '\\begin{%s}' % nm, '\\end{%s}' % nm
        yield b + N.a + e
        yield b + '{' + N.b + '}' + N.a + e
        yield b + '[' + N.b + ']' + N.a + e
        yield '{' + b + e + '}'
        yield b + b + N.a + e + e
        yield N.o + b + N.a + e + N.o
        yield '$' + b + N.a + e + '$'
        yield b + ' ' + N.a + ' ' + e + '\n'
    # command names that coincide with names the library treats specially elsewhere
    for nm in ('math', 'displaymath', 'tex', 'document', 'itemize', 'verbatim', 'equation', 'align', 'BraceGroup', 'end*',
               'begin*', 'item*', 'left*', 'items', 'iteme', 'beginx', 'endx', 'verb*', 'newcommandx', 'textbfx', 'defx'):
        c = '\\' + nm
        yield c
        yield c + '{' + N.a + '}' + N.b
        yield c + '[' + N.b + ']{' + N.a + '}'
        yield '{' + c + ' ' + N.a + '}'
        yield '$' + c + '{' + N.a + '}$'
        yield c + ' ' + N.a + '\n\n' + c + N.o
    # a verbatim-like body that quotes a closer whose name merely starts or ends with the environment's own name
    for v, other in (('verbatim', 'verbatimtab'), ('verbatim', 'verbatim*'), ('listing', 'listings'), ('listing', 'lstlisting'),
                     ('Verbatim', 'Verbatimx'), ('lstlisting', 'lstlisting2'), ('verbatimtab', 'verbatimtabs')):
        yield '\\begin{%s}%s\\end{%s}%s\\end{%s}' % (v, N.a, other, N.b, v)
        yield '%s\\begin{%s}\\end{%s}\\end{%s}\n' % (N.a, v, other, v)


# ---------------------------------------------------------------------------------------------
# repository samples and documentation examples

def sample_texts():
    """tests/samples/*.tex plus every LaTeX literal handed to TexSoup(...) in the README, the docs and the
    package's own docstrings (the documentation's examples)"""
    import re
    out = []
    for p in sorted(glob.glob(os.path.join(REPO, 'tests', 'samples', '*.tex'))):
        out.append((p, open(p, encoding='utf8').read()))
    files = [os.path.join(REPO, 'README.md')] + sorted(glob.glob(os.path.join(REPO, 'docs', 'source', '*.rst'))) + \
        sorted(glob.glob(os.path.join(REPO, 'TexSoup', '*.py')))
    pat = re.compile(r"TexSoup\(\s*(r?)(\'\'\'|\"\"\"|\'|\")(.*?)\2", re.S)
    seen = set()
    for f in files:
        try:
            text = open(f, encoding='utf8').read()
        except OSError:
            continue
        for m in pat.finditer(text):
            body = m.group(3)
            if 'Traceback' in text[m.end():m.end() + 400].split('>>>')[0]:
                continue        # the documentation shows this example failing on purpose
            if text[m.end():m.end() + 20].lstrip()[:1] == ',':
                continue        # parsed with options (tolerance=..., skip_envs=...): not a plain well-formed document
            # doctest continuation prompts inside multi-line literals
            body = re.sub(r'\n\s*(\.\.\.|>>>) ?', '\n', body)
            if not m.group(1):
                try:
                    body = body.encode('utf8').decode('unicode_escape')
                except Exception:
                    continue
            if body and body not in seen and len(body) < 3000:
                seen.add(body)
                out.append(('%s#%d' % (os.path.relpath(f, REPO), len(out)), body))
    return out
