"""Canonical tree form of a parsed TexSoup tree (DESIGN.md section 2.7), diagnostic classification
(C06) and the alignment oracles of C07/C08."""
import os
import re

from .gram import coalesce
from .runner import bind

_T = {}


def types():
    if not _T:
        bind()
        from TexSoup import data, utils
        _T.update(TexText=data.TexText, TexCmd=data.TexCmd, TexEnv=data.TexEnv, TexNamedEnv=data.TexNamedEnv,
                  BraceGroup=data.BraceGroup, BracketGroup=data.BracketGroup, TexExpr=data.TexExpr,
                  TexNode=data.TexNode, TexArgs=data.TexArgs, Token=utils.Token, TC=utils.TC, TexGroup=data.TexGroup)
    return _T


def canon_one(e):
    T = types()
    if isinstance(e, T['TexText']):
        t = e._text
        if getattr(t, 'category', None) == T['TC'].Comment:
            return ('CM', str(t))
        return ('T', str(t))
    if isinstance(e, T['BraceGroup']):
        return ('G{', canon_raw(e._contents))
    if isinstance(e, T['BracketGroup']):
        return ('G[', canon_raw(e._contents))
    if isinstance(e, T['TexCmd']):
        return ('C', str(e.name), tuple(canon_one(a) if isinstance(a, T['TexExpr']) else ('RAW', str(a))
                                        for a in e.args), canon_raw(e._contents))
    if isinstance(e, T['TexNamedEnv']):
        return ('E', str(e.name), tuple(canon_one(a) if isinstance(a, T['TexExpr']) else ('RAW', str(a))
                                        for a in e.args), canon_raw(e._contents))
    if isinstance(e, T['TexEnv']):
        return ('M', str(e.begin), canon_raw(e._contents))
    if isinstance(e, str):
        if getattr(e, 'category', None) == T['TC'].Comment:
            return ('CM', str(e))
        return ('T', str(e))
    return ('??', repr(e))


def canon_raw(contents):
    return tuple(canon_one(c) for c in contents)


def canon(soup_or_expr):
    """Canonical, text-coalesced form of the content list of a root node / expression."""
    e = getattr(soup_or_expr, 'expr', soup_or_expr)
    return coalesce(canon_raw(e._contents))


def canon_node(e):
    e = getattr(e, 'expr', e)
    return coalesce((canon_one(e),))[0]


# ---------------------------------------------------------------------------------------------
# C06: what counts as a diagnostic

DIAG = ('EOFError', 'TypeError', 'AssertionError')


def classify_exception(exc):
    """-> (class name, explicit: bool).  explicit = the innermost frame lies inside the TexSoup package and
    its source line is a `raise` or `assert` statement (a deliberate diagnostic, not an accident)."""
    import linecache
    import traceback
    tb = exc.__traceback__
    last = None
    for fr, lineno in traceback.walk_tb(tb):
        last = (fr.f_code.co_filename, lineno)
    explicit = False
    if last:
        fn, ln = last
        if (os.sep + 'TexSoup' + os.sep) in fn:
            # a statement may span several lines: look at this line and up to 3 lines above
            for k in range(0, 4):
                line = linecache.getline(fn, ln - k).strip()
                if line.startswith(('raise ', 'raise(', 'assert ', 'assert(')):
                    explicit = True
                    break
                if k == 0 and not line:
                    break
    return type(exc).__name__, explicit


# ---------------------------------------------------------------------------------------------
# C08 / C07 alignment oracles

_WS_BEFORE_GROUP = re.compile(r'[ \t]*(?:\r\n|\n|\r)?[ \t]*(?=[\[{])')


def align_c08(src, out):
    """Order-preserving alignment of src and out.  Allowed: skipping, on the src side, one whole
    whitespace run of the merged-spacer shape (blanks, at most one line break, blanks) that ends directly
    before '{' or '['.  Nothing may be skipped on the out side.  -> None if aligned, else (i, j) of the
    first irreconcilable position."""
    memo = {}

    def go(i, j):
        key = (i, j)
        if key in memo:
            return memo[key]
        res = False
        # iterative fast path over equal characters when no whitespace choice is pending
        while True:
            if j == len(out):
                # rest of src must be skippable: not allowed (whitespace must stand before a group)
                res = (i == len(src))
                break
            if i == len(src):
                res = False
                break
            if src[i] in ' \t\n\r':
                m = _WS_BEFORE_GROUP.match(src, i)
                if m and m.end() > i and go(m.end(), j):
                    res = True
                    break
            if src[i] == out[j]:
                i += 1
                j += 1
                continue
            res = False
            break
        memo[key] = res
        return res
    return go(0, 0)


def align_c07(src, out, begin_names):
    """out must be src plus inserted closers only ('}' , ']' , '\\end{n}' with n a \\begin name of src),
    modulo the whitespace removal C08 permits."""
    closers = ['}', ']'] + ['\\end{%s}' % n for n in begin_names]
    memo = {}
    import sys
    sys.setrecursionlimit(max(sys.getrecursionlimit(), 10000))

    def go(i, j):
        key = (i, j)
        if key in memo:
            return memo[key]
        memo[key] = False
        res = False
        if j == len(out):
            res = (i == len(src))
        else:
            if i < len(src) and src[i] == out[j] and go(i + 1, j + 1):
                res = True
            if not res and i < len(src) and src[i] in ' \t\n\r':
                m = _WS_BEFORE_GROUP.match(src, i)
                if m and m.end() > i and go(m.end(), j):
                    res = True
            if not res:
                for c in closers:
                    if out.startswith(c, j) and go(i, j + len(c)):
                        res = True
                        break
        memo[key] = res
        return res
    return go(0, 0)
