"""Detection / silence demonstration (DESIGN.md section 7).

    ./check --mutants [substring ...] [--props C01,C02] [--tier quick] [--skip-tests]

For every selected patch: copy /repo's working tree to a scratch directory outside /repo and /verif,
apply the patch, run the repository's own test-suite there (must stay green, unedited), run the
named checks with VERIF_REPO pointing at the copy (evidence and replays go to the scratch dir), and
delete the copy.  Killers must be reported by at least one of their checks; negative controls must be
silent on all of theirs."""
import glob
import hashlib
import json
import os
import shutil
import subprocess
import sys
import tempfile
import time

from . import runner

PY = '/venv/bin/python'


def catalogue():
    idx = json.load(open(os.path.join(runner.VERIF, 'mutants', 'index.json')))
    out = []
    for name, meta in idx.items():
        if meta.get('retired'):
            continue          # overtaken by a later repair of the library (reason in index.json)
        path = os.path.join(runner.VERIF, 'mutants', meta.get('dir', 'candidates'), name + '.patch')
        out.append((name, path, meta))
    for d in sorted(glob.glob(os.path.join(runner.VERIF, 'seeded', '*'))):
        mp = os.path.join(d, 'meta.json')
        if os.path.exists(mp):
            meta = json.load(open(mp))
            out.append(('seeded/' + os.path.basename(d), os.path.join(d, 'patch.diff'),
                        {'kind': 'K', 'props': meta.get('caught_by') or meta.get('breaks', [])}))
    return out


def scratch_copy():
    base = tempfile.mkdtemp(prefix='texsoup-mut-', dir=os.environ.get('VERIF_SCRATCH', '/tmp'))
    dst = os.path.join(base, 'repo')
    subprocess.run(['rsync', '-a', '--exclude', '.git', '--exclude', '__pycache__', '--exclude', '.coverage',
                    '/repo/', dst + '/'], check=True)
    return base, dst


def apply_patch(dst, patch):
    r = subprocess.run(['patch', '-p1', '-s', '-f', '-i', patch], cwd=dst, capture_output=True, text=True)
    return r.returncode == 0, (r.stdout + r.stderr)[-400:]


def tests_green(dst):
    env = dict(os.environ, PYTHONDONTWRITEBYTECODE='1')
    env.pop('VERIF_REPO', None)
    r = subprocess.run([PY, '-m', 'pytest', '-q', '-p', 'no:cacheprovider', '-x', '--no-cov'], cwd=dst,
                       capture_output=True, text=True, env=env)
    tail = (r.stdout.strip().splitlines() or [''])[-1]
    return r.returncode == 0, tail


def run_checks(dst, base, props, tier):
    res = {}
    for p in props:
        env = dict(os.environ, VERIF_REPO=dst, VERIF_EVIDENCE_DIR=os.path.join(base, 'ev'),
                   VERIF_REPLAY_DIR=os.path.join(base, 'rp'), VERIF_FAILFAST='1')
        t0 = time.time()
        r = subprocess.run([os.path.join(runner.VERIF, 'check'), p, '--tier', tier],
                           capture_output=True, text=True, env=env)
        first = ''
        for line in r.stdout.splitlines():
            if line.startswith('    sub='):
                first = line.strip()[:160]
                break
        if r.returncode not in (0, 1):
            first = (r.stdout + r.stderr)[-300:]
        res[p] = (r.returncode, round(time.time() - t0, 1), first)
    return res


def main(argv):
    tier = 'quick'
    props_override = None
    skip_tests = False
    pats = []
    it = iter(argv)
    for a in it:
        if a == '--props':
            props_override = next(it).split(',')
        elif a == '--tier':
            tier = next(it)
        elif a == '--skip-tests':
            skip_tests = True
        else:
            pats.append(a)
    from .cli import available
    avail = available()
    rows = []
    bad = 0
    for name, path, meta in catalogue():
        if pats and not any(p in name for p in pats):
            continue
        props = props_override or meta.get('props') or []
        if meta['kind'] == 'N' and not props_override:
            props = meta.get('props') or avail
        props = [p for p in props if p in avail]
        base, dst = scratch_copy()
        try:
            ok, msg = apply_patch(dst, path)
            if not ok:
                rows.append((name, meta['kind'], 'PATCH-FAILED', msg.replace('\n', ' ')[:100]))
                bad += 1
                continue
            if skip_tests:
                green, tail = True, 'skipped'
            else:
                green, tail = tests_green(dst)
            if not green:
                rows.append((name, meta['kind'], 'TESTS-RED', tail))
                continue
            res = run_checks(dst, base, props, tier)
            caught = [p for p, (rc, _, _) in res.items() if rc == 1]
            broken = [p for p, (rc, _, _) in res.items() if rc not in (0, 1)]
            if broken:
                verdict = 'HARNESS-ERROR ' + ','.join(broken)
                bad += 1
            elif meta['kind'] == 'K':
                verdict = ('caught by ' + ','.join(caught)) if caught else 'MISSED'
                bad += 0 if caught else 1
            else:
                verdict = 'silent' if not caught else 'FALSE-ALARM ' + ','.join(caught)
                bad += 1 if caught else 0
            detail = '; '.join('%s rc=%d %.0fs %s' % (p, rc, t, f) for p, (rc, t, f) in res.items() if rc or meta['kind'] == 'K')
            rows.append((name, meta['kind'], verdict, detail[:260]))
        finally:
            shutil.rmtree(base, ignore_errors=True)
            print('%-44s %s %-28s %s' % rows[-1], flush=True)
    print('mutants: %d run, %d not as expected' % (len(rows), bad))
    return 1 if bad else 0
