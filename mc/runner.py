"""Shared machinery: binding to the code under test, sharded exhaustive runner,
replay-twice rule, evidence, replay artefacts, known findings.  (DESIGN.md section 2)"""
import collections
import concurrent.futures as cf
import hashlib
import json
import multiprocessing as mp
import os
import sys
import time
import traceback

VERIF = os.path.dirname(os.path.dirname(os.path.abspath(__file__)))
REPO = os.path.realpath(os.environ.get('VERIF_REPO', '/repo'))
EVIDENCE_DIR = os.environ.get('VERIF_EVIDENCE_DIR', os.path.join(VERIF, 'evidence'))
REPLAY_DIR = os.environ.get('VERIF_REPLAY_DIR', os.path.join(VERIF, 'replays'))
NPROC = int(os.environ.get('VERIF_NPROC', '0')) or min(16, os.cpu_count() or 1)
MAX_VIOL_PER_SHARD = 12
MAX_SAMPLES = 6
FAILFAST = bool(os.environ.get('VERIF_FAILFAST'))


class HarnessError(Exception):
    """The harness itself misbehaved (nondeterminism, worker crash): exit code 2, never a VIOLATION."""


def bind():
    """Import TexSoup from the working tree under test and refuse anything else."""
    if REPO not in sys.path[:1]:
        sys.path.insert(0, REPO)
    import TexSoup
    f = os.path.realpath(TexSoup.__file__)
    if not f.startswith(REPO + os.sep):
        raise HarnessError('TexSoup imported from %s, expected below %s' % (f, REPO))
    return TexSoup


def seed():
    try:
        return int(os.environ.get('VERIF_SEED', '0'))
    except ValueError:
        return 0


def h64(obj):
    """Stable 64-bit digest of a canonical outcome (repr based; run under PYTHONHASHSEED=0)."""
    return int.from_bytes(hashlib.blake2b(repr(obj).encode('utf8', 'surrogatepass'),
                                          digest_size=8).digest(), 'big')


class Acc:
    """Per-shard accumulator returned by workers and merged by the parent."""

    def __init__(self, classify=None):
        self.evals = 0
        self.digests = set()
        self.hist = collections.Counter()
        self.viol = []          # unknown violations: dicts
        self.nviol = 0
        self.known = {}         # finding id -> [count, smallest example]
        self.samples = []
        self.extra = collections.Counter()
        self._classify = classify

    def ok(self, outcome=None, cls=None, nontrivial=True):
        self.evals += 1
        if outcome is not None and nontrivial:
            self.digests.add(outcome if isinstance(outcome, int) else hash(outcome))
        if cls is not None:
            self.hist[cls] += 1

    def sample(self, case):
        if len(self.samples) < MAX_SAMPLES:
            self.samples.append(case)

    def violation(self, sub, case, expected, observed, size=0, msg=''):
        v = {'sub': sub, 'case': case, 'expected': expected, 'observed': observed,
             'size': size, 'msg': msg}
        fid = self._classify(v) if self._classify else None
        if fid:
            ent = self.known.setdefault(fid, [0, None, None])
            ent[0] += 1
            if ent[1] is None or size < ent[1]:
                ent[1], ent[2] = size, v
            return
        self.nviol += 1
        self.viol.append(v)
        if len(self.viol) > MAX_VIOL_PER_SHARD:
            self.viol.sort(key=lambda x: (x['size'], repr(x['case'])))
            del self.viol[MAX_VIOL_PER_SHARD:]

    def merge(self, o):
        self.evals += o.evals
        self.digests |= o.digests
        self.hist.update(o.hist)
        self.extra.update(o.extra)
        self.nviol += o.nviol
        self.viol.extend(o.viol)
        for k, (n, sz, v) in o.known.items():
            ent = self.known.setdefault(k, [0, None, None])
            ent[0] += n
            if ent[1] is None or (sz is not None and sz < ent[1]):
                ent[1], ent[2] = sz, v
        for s in o.samples:
            if len(self.samples) < MAX_SAMPLES:
                self.samples.append(s)


# ---------------------------------------------------------------------------------------------
# known findings

def load_known(prop_id):
    path = os.path.join(VERIF, 'known_findings.json')
    try:
        data = json.load(open(path))
    except FileNotFoundError:
        return []
    return [f for f in data.get('findings', [])
            if f.get('property') == prop_id and f.get('status') == 'known']


def make_classifier(prop_id, predicates):
    """predicates: signature name -> callable(violation dict) -> bool, implemented by the property
    module.  A violation is attributed to a finding only if the finding is listed as 'known' for this
    property in known_findings.json AND its predicate (syntactic trigger + predicted wrong
    observation) holds."""
    known = load_known(prop_id)
    active = [(f['id'], predicates[f['signature']]) for f in known if f.get('signature') in predicates]

    def classify(v):
        for fid, pred in active:
            try:
                if pred(v):
                    return fid
            except Exception:
                pass
        return None
    return classify if active else None


# ---------------------------------------------------------------------------------------------
# parallel execution

_WORK = {}


def _init_worker():
    pass


_HISTORY = []     # shards this worker process has run so far (a worker serves many shards, one after the other)


def run_shard_guarded(mod, shard):
    """mod.run_shard(shard); an exception that escapes from the code under test through a harness call that does
    not expect one (str(), a view, a search on a successfully parsed tree) is a violation of the property being
    checked, not a harness fault: it is reported with the shard as its replay.  Exceptions raised by harness code
    itself propagate (exit 2)."""
    try:
        return mod.run_shard(shard)
    except (HarnessError, KeyboardInterrupt, MemoryError):
        raise
    except Exception as e:
        tb = traceback.extract_tb(e.__traceback__)
        inner = tb[-1] if tb else None
        if inner is None or not os.path.realpath(inner.filename).startswith(os.path.join(REPO, 'TexSoup') + os.sep):
            raise
        acc = Acc()
        where = '%s:%s' % (os.path.basename(inner.filename), inner.name)
        caller = [f for f in tb if not os.path.realpath(f.filename).startswith(REPO + os.sep)]
        at = ('%s:%d %s' % (os.path.basename(caller[-1].filename), caller[-1].lineno, (caller[-1].line or '').strip())
              if caller else '')
        acc.violation('library-exception', {'shard': jsonable(shard), 'raised_in': where, 'harness_call': at},
                      'no exception from this call on a tree that was parsed successfully',
                      '%s: %s' % (type(e).__name__, str(e)[:200]), size=0)
        for v in acc.viol:
            v['library_exception'] = True
        return acc


def _run_shard(args):
    modname, shard = args
    mod = sys.modules.get(modname) or __import__(modname, fromlist=['x'])
    t0 = time.time()
    before = list(_HISTORY)
    _HISTORY.append(shard)
    acc = run_shard_guarded(mod, shard)
    acc.extra['shard_s'] += time.time() - t0
    for v in acc.viol:
        v.setdefault('shard', shard)
        v.setdefault('worker_history', before)
    acc._classify = None          # closures do not pickle; classification is done
    return acc


def pmap(modname, shards, nproc=None):
    """Run mod.run_shard over all shards in forked workers; merge; fail loudly on any worker problem."""
    nproc = nproc or NPROC
    total = Acc()
    if not shards:
        return total
    if nproc <= 1 or len(shards) == 1:
        for s in shards:
            total.merge(_run_shard((modname, s)))
        return total
    ctx = mp.get_context('fork')
    ex = cf.ProcessPoolExecutor(max_workers=min(nproc, len(shards)), mp_context=ctx)
    stopped = False
    try:
        futs = [ex.submit(_run_shard, (modname, s)) for s in shards]
        for f in cf.as_completed(futs):
            try:
                total.merge(f.result())
            except cf.CancelledError:
                continue
            except Exception as e:  # BrokenProcessPool, worker exception
                for g in futs:
                    g.cancel()
                raise HarnessError('worker failed: %s: %s\n%s' % (type(e).__name__, e,
                                                                    traceback.format_exc()))
            if FAILFAST and total.nviol:
                # mutant runs only: stop at the first violating shard (evidence is marked partial; the process
                # leaves through os._exit so that the abandoned pool cannot block the exit)
                total.extra['failfast_stopped'] = 1
                stopped = True
                for g in futs:
                    g.cancel()
                for proc in list(getattr(ex, '_processes', {}).values()):
                    try:
                        proc.kill()
                    except Exception:
                        pass
                break
    finally:
        ex.shutdown(wait=not stopped, cancel_futures=True)
    return total


# ---------------------------------------------------------------------------------------------
# reporting

def jsonable(x):
    if isinstance(x, (str, int, float, bool)) or x is None:
        return x
    if isinstance(x, (list, tuple)):
        return [jsonable(i) for i in x]
    if isinstance(x, dict):
        return {str(k): jsonable(v) for k, v in x.items()}
    if isinstance(x, (set, frozenset)):
        return sorted(jsonable(i) for i in x)
    return repr(x)


def repo_state():
    import subprocess
    try:
        head = subprocess.run(['git', '-C', REPO, 'rev-parse', '--short', 'HEAD'],
                              capture_output=True, text=True).stdout.strip()
        dirty = bool(subprocess.run(['git', '-C', REPO, 'status', '--porcelain', '--', 'TexSoup'],
                                    capture_output=True, text=True).stdout.strip())
        return {'repo': REPO, 'head': head, 'dirty': dirty}
    except Exception:
        return {'repo': REPO}


def write_replay(prop_id, v, snippet):
    os.makedirs(REPLAY_DIR, exist_ok=True)
    rec = {'property': prop_id, 'sub': v['sub'], 'case': jsonable(v['case']),
           'expected': jsonable(v['expected']), 'observed': jsonable(v['observed']),
           'msg': v.get('msg', ''), 'code_under_test': repo_state(), 'snippet': snippet}
    if v.get('history_dependent'):
        rec['history_dependent'] = True
        rec['shard'] = jsonable(v.get('shard'))
        if v.get('varying'):
            rec['varying'] = True
            rec['another_run_failed_on'] = v.get('varying_example')
    dig = hashlib.blake2b(json.dumps([rec['sub'], rec['case']], sort_keys=True).encode(),
                          digest_size=6).hexdigest()
    path = os.path.join(REPLAY_DIR, '%s-%s.json' % (prop_id, dig))
    with open(path, 'w') as f:
        json.dump(rec, f, indent=1, ensure_ascii=True)
    return path


def write_evidence(prop_id, tier, level, coverage, wall_s, violations, assumptions):
    os.makedirs(EVIDENCE_DIR, exist_ok=True)
    ev = {'property_id': prop_id, 'tier': tier, 'seed': seed(), 'level': level,
          'coverage': jsonable(coverage), 'assumptions': list(assumptions),
          'wall_s': round(wall_s, 2), 'violations': int(violations),
          'code_under_test': repo_state()}
    path = os.path.join(EVIDENCE_DIR, '%s.json' % prop_id)
    tmp = path + '.tmp'
    with open(tmp, 'w') as f:
        json.dump(ev, f, indent=1, ensure_ascii=True)
    os.replace(tmp, path)
    return path


def finish(mod, tier, total, coverage, t0, assumptions):
    """Common tail of every check: replay-twice, known findings, evidence, exit code."""
    prop_id = mod.ID
    total.viol.sort(key=lambda x: (x['size'], repr(x['case'])))
    reported = []
    unreproducible = []
    seen_keys = set()
    for v in total.viol:
        key = (v['sub'], repr(v['case']))
        if key in seen_keys:
            continue
        seen_keys.add(key)
        if len(reported) >= 10:
            break
        # replay-twice rule: the same case must fail the same way twice more, in this process
        obs = []
        for _ in range(2):
            r = [] if v.get('library_exception') else mod.replay(v['case'])
            obs.append(sorted((x['sub'], repr(x['observed'])) for x in r))
        if obs[0] != obs[1] or (v['sub'], repr(v['observed'])) not in obs[0]:
            # not reproducible in isolation: either the harness is nondeterministic, or the code under test
            # carries state from one call to the next.  Decide by re-running the whole shard (the exact call
            # history of the worker) twice in fresh processes.
            how = shard_reproduces(mod, v) if v.get('shard') is not None else None
            if how is None:
                unreproducible.append('nondeterministic replay for %s %r: worker saw %r, replays saw %r / %r'
                                      % (prop_id, v['case'], (v['sub'], v['observed']), obs[0], obs[1]))
                continue
            v['history_dependent'] = True
            if how == 'exact':
                v['msg'] = (v.get('msg', '') + ' [history-dependent: fails only after the calls made earlier in the '
                            'same process; replay re-runs the shard]').strip()
            else:
                v['varying'] = True
                v['msg'] = (v.get('msg', '') + ' [state-dependent: the shard fails again in every fresh interpreter, '
                            'but not always on this very case (the outcome depends on leftovers of earlier calls or '
                            'on object addresses); replay re-runs the shard and reports any violation of it]').strip()
            if how == 'varying' and any(r.get('varying') for r in reported):
                continue                       # one record per run is enough for a wandering failure
        reported.append(v)
    if unreproducible and not reported:
        raise HarnessError(unreproducible[0])
    for fid, (n, sz, ex) in sorted(total.known.items()):
        print('KNOWN-FINDING: property=%s %s: %s (%d cases in this run, e.g. %s)' % (
            prop_id, fid, known_desc(prop_id, fid), n, json.dumps(jsonable(ex['case']))[:200]))
    for v in reported:
        if v.get('library_exception'):
            snip = ('# an exception escaped from the library while shard %s was explored\n# ./check %s --replay <this file> '
                    're-runs the shard\n' % (json.dumps(jsonable(v.get('shard')))[:300], prop_id))
        else:
            snip = mod.snippet(v) if hasattr(mod, 'snippet') else ''
        path = write_replay(prop_id, v, snip)
        print('VIOLATION property=%s replay=%s' % (prop_id, path))
        print('    sub=%s case=%s' % (v['sub'], json.dumps(jsonable(v['case']))[:300]))
        print('    expected=%s' % (json.dumps(jsonable(v['expected']))[:300]))
        print('    observed=%s' % (json.dumps(jsonable(v['observed']))[:300]))
    wall = time.time() - t0
    coverage = dict(coverage)
    coverage.setdefault('evaluations', total.evals)
    coverage.setdefault('distinct_nontrivial', len(total.digests))
    coverage.setdefault('samples', total.samples[:MAX_SAMPLES])
    if not coverage['samples']:
        coverage['samples'] = [jsonable(v['case']) for v in total.viol[:3]]
    if not coverage['samples']:
        raise HarnessError('the run produced no sample cases for the evidence file (check %s)' % prop_id)
    coverage.setdefault('exhaustive', not total.extra.get('failfast_stopped'))
    coverage['outcome_histogram'] = dict(total.hist)
    coverage['counters'] = {k: (round(v, 2) if isinstance(v, float) else v)
                            for k, v in total.extra.items()}
    coverage['known_findings_hit'] = {k: v[0] for k, v in total.known.items()}
    coverage['violations_total'] = total.nviol
    path = write_evidence(prop_id, tier, mod.LEVEL, coverage, wall, total.nviol, assumptions)
    brief = {k: coverage[k] for k in ('evaluations', 'distinct_nontrivial', 'states', 'transitions',
                                      'traces_validated_against_impl') if k in coverage}
    print('%s tier=%s seed=%d %s violations=%d wall=%.1fs evidence=%s' % (
        prop_id, tier, seed(), ' '.join('%s=%s' % kv for kv in brief.items()), total.nviol, wall, path))
    if total.hist:
        print('    outcomes: %s' % dict(total.hist.most_common(12)))
    return 1 if total.nviol else 0


_SHARD_RERUNS = {}
_HIST_ATTEMPTS = [0]


def shard_reproduces(mod, v):
    """Run the violation's shard twice in fresh interpreters.  'exact' iff both runs report the same (sub, case);
    'varying' iff both runs report violations but not (both times) this very case - code whose outcome depends on
    memory addresses or on leftovers of earlier calls fails on a different case from run to run; None iff a
    re-run is silent."""
    import subprocess
    want = [v['sub'], jsonable(v['case'])]

    def attempt(spec):
        key = json.dumps(spec, sort_keys=True)
        if key not in _SHARD_RERUNS:
            runs = []
            for _ in range(2):
                r = subprocess.run([os.path.join(VERIF, 'check'), mod.ID, '--replay-shard', json.dumps(spec)],
                                   capture_output=True, text=True)
                runs.append([json.loads(l[6:]) for l in r.stdout.splitlines() if l.startswith('SHARD ')])
            _SHARD_RERUNS[key] = runs
        runs = _SHARD_RERUNS[key]
        exact = all(want in [[h['sub'], h['case']] for h in hits] for hits in runs)
        anyhit = all(hits for hits in runs)
        alt = runs[0][0] if runs[0] else None
        return 'exact' if exact else ('varying' if anyhit else None), alt

    how, alt = attempt(v['shard'])
    if how is None and v.get('worker_history') and _HIST_ATTEMPTS[0] < 2:
        _HIST_ATTEMPTS[0] += 1
        # the state may have been left behind by an earlier shard served by the same worker process: replay the
        # worker's whole sequence of shards
        spec = list(v['worker_history']) + [v['shard']]
        how, alt = attempt(spec)
        if how is not None:
            v['shard'] = spec
    if how == 'varying':
        v['varying_example'] = alt
    return how


def known_desc(prop_id, fid):
    for f in load_known(prop_id):
        if f['id'] == fid:
            return f.get('what', '')
    return ''
