"""Command line of ./check."""
import importlib
import json
import os
import subprocess
import sys
import time

from . import runner

ALL = ['C%02d' % i for i in range(1, 21)]


def load(prop_id):
    return importlib.import_module('mc.props.' + prop_id.lower())


def available():
    out = []
    for p in ALL:
        if os.path.exists(os.path.join(runner.VERIF, 'mc', 'props', p.lower() + '.py')):
            out.append(p)
    return out


def run_check(prop_id, tier):
    mod = load(prop_id)
    t0 = time.time()
    runner.bind()
    if hasattr(mod, 'prepare'):
        mod.prepare(tier)
    if hasattr(mod, 'explore'):
        total = mod.explore(tier)
    else:
        total = runner.pmap(mod.__name__, mod.shards(tier))
    if hasattr(mod, 'extra_phase'):
        mod.extra_phase(tier, total)
    cov = mod.coverage(tier, total)
    return runner.finish(mod, tier, total, cov, t0, mod.ASSUMPTIONS)


def do_replay(prop_id, path):
    mod = load(prop_id)
    runner.bind()
    rec = json.load(open(path))
    if rec.get('history_dependent'):
        acc = runner.Acc()
        for sh in (rec['shard'] if isinstance(rec['shard'], list) else [rec['shard']]):
            acc.viol.extend(runner.run_shard_guarded(mod, sh).viol)
        res = [v for v in acc.viol if rec.get('varying') or
               (v['sub'] == rec['sub'] and runner.jsonable(v['case']) == rec['case'])][:3]
        print('(history-dependent violation: re-ran the whole shard %s)' % json.dumps(rec['shard']))
    else:
        res = mod.replay(rec['case'])
    print('replay of %s (%s, sub=%s)' % (path, rec['property'], rec['sub']))
    print('  case:      %s' % json.dumps(rec['case'])[:1000])
    print('  recorded:  expected=%s' % json.dumps(rec['expected'])[:600])
    print('             observed=%s' % json.dumps(rec['observed'])[:600])
    if not res:
        print('  now:       the case passes on the current tree')
        return 0
    for r in res:
        print('  now:       sub=%s expected=%s' % (r['sub'], json.dumps(runner.jsonable(r['expected']))[:600]))
        print('             observed=%s' % json.dumps(runner.jsonable(r['observed']))[:600])
    print('VIOLATION property=%s replay=%s' % (prop_id, path))
    return 1


def selftest():
    ok = True
    ts = runner.bind()
    print('TexSoup bound to', ts.__file__)
    for p in available():
        try:
            load(p)
        except Exception as e:  # pragma: no cover
            ok = False
            print('import of check %s failed: %s' % (p, e))
    mpath = os.path.join(runner.VERIF, 'MANIFEST.json')
    if os.path.exists(mpath):
        man = json.load(open(mpath))
        ids = [c['property_id'] for c in man['checks']] + [n['property_id'] for n in man.get('not_applicable', [])]
        missing = [p for p in ALL if p not in ids]
        if missing:
            ok = False
            print('MANIFEST.json does not mention', missing)
        vt = '/opt/veriftools/pyvenv/bin/python'
        if os.path.exists(vt) and os.path.exists('/root/.vp/MANIFEST.schema.json'):
            r = subprocess.run([vt, '-c', 'import json,jsonschema,sys;'
                                'jsonschema.validate(json.load(open(sys.argv[1])),json.load(open(sys.argv[2])))',
                                mpath, '/root/.vp/MANIFEST.schema.json'], capture_output=True, text=True)
            if r.returncode:
                ok = False
                print('MANIFEST.json does not validate:', r.stderr[-400:])
    json.load(open(os.path.join(runner.VERIF, 'known_findings.json')))
    vt = '/opt/veriftools/pyvenv/bin/python'
    esch = '/root/.vp/EVIDENCE.schema.json'
    if os.path.exists(vt) and os.path.exists(esch):
        for p in available():
            ep = os.path.join(runner.EVIDENCE_DIR, p + '.json')
            if not os.path.exists(ep):
                continue
            r = subprocess.run([vt, '-c', 'import json,jsonschema,sys;'
                                'jsonschema.validate(json.load(open(sys.argv[1])),json.load(open(sys.argv[2])))',
                                ep, esch], capture_output=True, text=True)
            if r.returncode:
                ok = False
                print('evidence %s does not validate: %s' % (ep, r.stderr.strip().splitlines()[-1][:200] if r.stderr else ''))
    print('selftest', 'ok' if ok else 'FAILED', '- checks available:', ' '.join(available()))
    return 0 if ok else 2


def main(argv):
    tier = os.environ.get('VERIF_TIER', 'quick')
    if '--tier' in argv:
        i = argv.index('--tier')
        tier = argv[i + 1]
        del argv[i:i + 2]
    if tier not in ('quick', 'thorough'):
        print('unknown tier', tier)
        return 2
    try:
        if not argv or argv[0] in ('-h', '--help'):
            print(open(os.path.join(runner.VERIF, 'check')).read().split('"""')[1])
            return 0
        if argv[0] == '--selftest':
            return selftest()
        if argv[0] == '--mutants':
            from . import mutants
            return mutants.main(argv[1:])
        if argv[0] == '--all':
            rc = 0
            for p in available():
                rc = max(rc, run_check(p, tier))
            return rc
        prop_id = argv[0].upper()
        if '--replay-shard' in argv:
            mod = load(prop_id)
            runner.bind()
            shard = json.loads(argv[argv.index('--replay-shard') + 1])
            viol = []
            for sh in (shard if isinstance(shard, list) else [shard]):
                viol.extend(runner.run_shard_guarded(mod, sh).viol)
            acc = runner.Acc()
            acc.viol = viol
            for v in acc.viol:
                print('SHARD ' + json.dumps({'sub': v['sub'], 'case': runner.jsonable(v['case']),
                                             'observed': runner.jsonable(v['observed'])}))
            return 1 if acc.viol else 0
        if '--replay' in argv:
            return do_replay(prop_id, argv[argv.index('--replay') + 1])
        rc = run_check(prop_id, tier)
        if runner.FAILFAST:
            sys.stdout.flush()
            sys.stderr.flush()
            os._exit(rc)
        return rc
    except runner.HarnessError as e:
        print('HARNESS-ERROR: %s' % e)
        return 2
