"""Reference document model for edit histories (C15, C17).  Deliberately boring: a tree of Python lists.
It is built once as a structural mirror of the initial parse and from then on changes only through its own
list operations; serialisation is name + args + body, nothing else."""

MATH_END = {'$': '$', '$$': '$$', '\\(': '\\)', '\\[': '\\]'}


class M:
    __slots__ = ('kind', 'name', 'args', 'body', 'text', 'end')

    def __init__(self, kind, name=None, args=None, body=None, text=None, end=None):
        self.kind, self.name, self.text, self.end = kind, name, text, end
        self.args = args if args is not None else []
        self.body = body if body is not None else []

    def ser(self):
        k = self.kind
        if k in ('T', 'CM'):
            return self.text
        b = ''.join(c.ser() for c in self.body)
        a = ''.join(c.ser() for c in self.args)
        if k == 'ROOT':
            return b
        if k == 'G{':
            return '{' + b + '}'
        if k == 'G[':
            return '[' + b + ']'
        if k == 'C':
            return '\\' + self.name + a + b
        if k == 'E':
            return '\\begin{%s}' % self.name + a + b + '\\end{%s}' % self.name
        if k == 'M':
            return self.name + b + self.end
        raise ValueError(k)

    def dump(self):
        if self.kind in ('T', 'CM'):
            return (self.kind, self.text)
        return (self.kind, self.name, tuple(a.dump() for a in self.args), tuple(c.dump() for c in self.body))

    def copy(self):
        return M(self.kind, self.name, [a.copy() for a in self.args], [c.copy() for c in self.body], self.text, self.end)


def mirror(expr, T):
    """structural mirror of a TexSoup expression (one model leaf per content-list entry)"""
    if isinstance(expr, T['TexText']):
        t = expr._text
        return M('CM' if getattr(t, 'category', None) == T['TC'].Comment else 'T', text=str(t))
    if isinstance(expr, T['TexNode']):
        return mirror(expr.expr, T)
    if isinstance(expr, str):
        return M('T', text=str(expr))
    args = [mirror(a, T) for a in expr.args]
    body = [mirror(c, T) for c in expr._contents]
    if isinstance(expr, T['BraceGroup']):
        return M('G{', body=body)
    if isinstance(expr, T['BracketGroup']):
        return M('G[', body=body)
    if isinstance(expr, T['TexCmd']):
        return M('C', str(expr.name), args, body)
    if isinstance(expr, T['TexNamedEnv']):
        return M('E', str(expr.name), args, body)
    if isinstance(expr, T['TexEnv']):
        if str(expr.name) == '[tex]':
            return M('ROOT', body=body)
        return M('M', str(expr.begin), args, body, end=str(expr.end))
    raise TypeError(type(expr))


def resolve(root, path):
    n = root
    for step, i in path:
        n = n.body[i] if step == 'b' else n.args[i]
    return n


def container_of(root, path):
    """(list holding the node at path, index)"""
    parent = resolve(root, path[:-1])
    step, i = path[-1]
    return (parent.body if step == 'b' else parent.args), i


def walk(node, path=()):
    """(path, node) for every node below `node`, arguments before body (document order)"""
    for j, a in enumerate(node.args):
        p = path + (('a', j),)
        yield p, a
        yield from walk(a, p)
    for i, c in enumerate(node.body):
        p = path + (('b', i),)
        yield p, c
        yield from walk(c, p)


def text_leaves(node):
    out = []
    for p, n in walk(node):
        if n.kind in ('T', 'CM'):
            out.append(n.text)
    return out
