"""E-HIST: explicit-state breadth-first search over operation histories on real objects,
in lock-step with a reference model.  (DESIGN.md section 1.1, 2)

A *system* object supplies:
    fresh(init)            -> (impl, model)           brand-new real object + model for an initial descriptor
    enabled(model)         -> list of ops             the finite menu in this model state (simplest first)
    step(impl, model, op)  -> None | (expected, observed)   apply op to both, compare every observable
    key(impl, model)       -> hashable                canonical state key (everything later ops can read)
    invariant(impl, model) -> None | (expected, observed)   optional, evaluated in every state

A state is the history reaching it; live objects are never copied: every expansion replays the
history on a fresh object (divergence while replaying an already validated prefix is a hard error).
"""
import collections

from .runner import HarnessError


class Divergence(Exception):
    """Replaying an already validated prefix on a fresh object did not behave as it did the first time: either the
    harness is nondeterministic or the code under test carries state from one fresh object to the next."""

    def __init__(self, init, hist, op, bad):
        super().__init__('divergence while replaying validated prefix %r of %r on %r: %r' % (op, hist, init, bad))
        self.init, self.hist, self.op, self.bad = init, list(hist), op, bad


class Result:
    def __init__(self):
        self.states = 0
        self.transitions = 0
        self.traces = 0
        self.max_depth = 0
        self.violations = []     # (history, op, expected, observed)
        self.samples = []
        self.depth_hist = collections.Counter()
        self.saturated = False


def replay(system, init, hist, validate=True):
    impl, model = system.fresh(init)
    for op in hist:
        bad = system.step(impl, model, op)
        if bad is not None and validate:
            raise Divergence(init, hist, op, bad)
    return impl, model


def bfs(system, init, max_depth, max_violations=20, prefix=()):
    """Explore every history of <= max_depth operations from `init`, deduplicating by system.key.
    Every transition out of every distinct state is executed and compared (so the exploration is
    complete for the reachable state graph up to that depth; it stops early when the graph is
    saturated, i.e. a whole level adds no new state)."""
    res = Result()
    prefix = list(prefix)
    impl, model = system.fresh(init)
    for op in prefix:
        if system.step(impl, model, op) is not None:
            return res      # a violating prefix is reported by the shard that owns the shorter history
    inv = getattr(system, 'invariant', None)
    if inv and not prefix:
        bad = inv(impl, model)
        if bad is not None:
            res.violations.append(([], None, bad[0], bad[1]))
            return res
    seen = {system.key(impl, model)}
    res.states = 1
    frontier = [prefix]
    for depth in range(len(prefix) + 1, max_depth + 1):
        nxt = []
        for hist in frontier:
            impl, model = replay(system, init, hist)
            ops = system.enabled(model)
            for op in ops:
                impl, model = replay(system, init, hist)
                bad = system.step(impl, model, op)
                res.transitions += 1
                if bad is None and inv:
                    bad = inv(impl, model)
                if bad is not None:
                    if len(res.violations) < max_violations:
                        res.violations.append((list(hist), op, bad[0], bad[1]))
                    continue
                k = system.key(impl, model)
                if k not in seen:
                    seen.add(k)
                    nxt.append(hist + [op])
                    res.depth_hist[depth] += 1
            res.traces += 1
            if len(res.samples) < 4 and len(hist) == depth - 1 and ops:
                res.samples.append({'init': init, 'history': [list(o) for o in hist + [ops[-1]]]})
        res.states = len(seen)
        if nxt:
            res.max_depth = depth
        if not nxt:
            res.saturated = True
            break
        frontier = nxt
    return res


def sequences(system, init, depth, max_violations=20):
    """Exhaustive enumeration of *all* operation sequences of exactly <= depth steps without state
    deduplication (validates the canonical key: equal keys must have equal futures)."""
    res = Result()
    stack = [[]]
    while stack:
        hist = stack.pop()
        impl, model = replay(system, init, hist)
        res.traces += 1
        if len(hist) >= depth:
            continue
        for op in system.enabled(model):
            impl, model = replay(system, init, hist)
            bad = system.step(impl, model, op)
            res.transitions += 1
            if bad is not None:
                if len(res.violations) < max_violations:
                    res.violations.append((list(hist), op, bad[0], bad[1]))
                continue
            stack.append(hist + [op])
    res.max_depth = depth
    return res


# ---------------------------------------------------------------------------------------------
# level-synchronous parallel BFS with global state deduplication

def _expand(args):
    """Worker: expand a chunk of states (histories) of one initial descriptor."""
    import importlib
    modname, init, hists = args
    system = importlib.import_module(modname).system()
    init = tuple(init) if isinstance(init, list) else init
    inv = getattr(system, 'invariant', None)
    out = []          # (hist index, op, key)
    viol = []
    transitions = 0
    for hi, hist in enumerate(hists):
        impl, model = replay(system, init, hist)
        k0 = system.key(impl, model)
        ops = system.enabled(model)
        clean = True
        for op in ops:
            if not clean:
                impl, model = replay(system, init, hist)
            bad = system.step(impl, model, op)
            transitions += 1
            if bad is None and inv:
                bad = inv(impl, model)
            if bad is not None:
                viol.append((list(hist), op, bad[0], bad[1]))
                clean = False
                continue
            k = system.key(impl, model)
            # an operation that leaves the canonical state unchanged lets the same live object be reused
            clean = (k == k0)
            if not clean:
                out.append((hi, op, k))
    return out, viol, transitions


def parallel_bfs(modname, init, max_depth, pool, nchunks=64, max_violations=40):
    """BFS over all histories of <= max_depth operations from `init`; the parent owns the `seen` set
    (global deduplication by canonical key), workers expand the frontier of each level."""
    import importlib
    res = Result()
    system = importlib.import_module(modname).system()
    impl, model = system.fresh(init)
    inv = getattr(system, 'invariant', None)
    if inv:
        bad = inv(impl, model)
        if bad is not None:
            res.violations.append(([], None, bad[0], bad[1]))
            return res
    seen = {system.key(impl, model)}
    frontier = [[]]
    for depth in range(1, max_depth + 1):
        n = max(1, min(nchunks, len(frontier)))
        chunks = [frontier[i::n] for i in range(n)]
        if pool is None:
            results = [_expand((modname, init, c)) for c in chunks]
        else:
            results = list(pool.map(_expand, [(modname, init, c) for c in chunks]))
        nxt = []
        for c, (out, viol, tr) in zip(chunks, results):
            res.transitions += tr
            res.traces += len(c)
            for v in viol:
                if len(res.violations) < max_violations:
                    res.violations.append(v)
            for hi, op, k in out:
                if k not in seen:
                    seen.add(k)
                    nxt.append(c[hi] + [op])
        res.depth_hist[depth] = len(nxt)
        res.states = len(seen)
        if len(res.samples) < 3 and nxt:
            res.samples.append({'init': list(init), 'history': [list(o) for o in nxt[len(nxt) // 2]]})
        if not nxt:
            res.saturated = True
            break
        res.max_depth = depth
        frontier = nxt
    return res
