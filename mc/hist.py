"""E-HIST: explicit-state breadth-first search over operation histories on real objects,
in lock-step with a reference model.  (DESIGN.md section 1.1, 2)

A *system* object supplies:
    fresh(init)            -> (impl, model)           brand-new real object + model for an initial descriptor
    enabled(model)         -> list of ops             the finite menu in this model state (simplest first)
    step(impl, model, op)  -> None | (expected, observed)   apply op to both, compare every observable
    key(impl, model)       -> hashable                canonical state key (everything later ops can read)
    invariant(impl, model) -> None | (expected, observed)   optional, evaluated in every state

A state is the history reaching it; live objects are never copied: every expansion replays the
history on a fresh object (divergence while replaying an already validated prefix is a hard error).
"""
import collections

from .runner import HarnessError


class Result:
    def __init__(self):
        self.states = 0
        self.transitions = 0
        self.traces = 0
        self.max_depth = 0
        self.violations = []     # (history, op, expected, observed)
        self.samples = []
        self.depth_hist = collections.Counter()
        self.saturated = False


def replay(system, init, hist, validate=True):
    impl, model = system.fresh(init)
    for op in hist:
        bad = system.step(impl, model, op)
        if bad is not None and validate:
            raise HarnessError('divergence while replaying validated prefix %r of %r on %r: %r'
                               % (op, hist, init, bad))
    return impl, model


def bfs(system, init, max_depth, max_violations=20):
    """Explore every history of <= max_depth operations from `init`, deduplicating by system.key.
    Every transition out of every distinct state is executed and compared (so the exploration is
    complete for the reachable state graph up to that depth; it stops early when the graph is
    saturated, i.e. a whole level adds no new state)."""
    res = Result()
    impl, model = system.fresh(init)
    inv = getattr(system, 'invariant', None)
    if inv:
        bad = inv(impl, model)
        if bad is not None:
            res.violations.append(([], None, bad[0], bad[1]))
            return res
    seen = {system.key(impl, model)}
    res.states = 1
    frontier = [[]]
    for depth in range(1, max_depth + 1):
        nxt = []
        for hist in frontier:
            impl, model = replay(system, init, hist)
            ops = system.enabled(model)
            for op in ops:
                impl, model = replay(system, init, hist)
                bad = system.step(impl, model, op)
                res.transitions += 1
                if bad is None and inv:
                    bad = inv(impl, model)
                if bad is not None:
                    if len(res.violations) < max_violations:
                        res.violations.append((list(hist), op, bad[0], bad[1]))
                    continue
                k = system.key(impl, model)
                if k not in seen:
                    seen.add(k)
                    nxt.append(hist + [op])
                    res.depth_hist[depth] += 1
            res.traces += 1
            if len(res.samples) < 4 and len(hist) == depth - 1 and ops:
                res.samples.append({'init': init, 'history': [list(o) for o in hist + [ops[-1]]]})
        res.states = len(seen)
        if nxt:
            res.max_depth = depth
        if not nxt:
            res.saturated = True
            break
        frontier = nxt
    return res


def sequences(system, init, depth, max_violations=20):
    """Exhaustive enumeration of *all* operation sequences of exactly <= depth steps without state
    deduplication (validates the canonical key: equal keys must have equal futures)."""
    res = Result()
    stack = [[]]
    while stack:
        hist = stack.pop()
        impl, model = replay(system, init, hist)
        res.traces += 1
        if len(hist) >= depth:
            continue
        for op in system.enabled(model):
            impl, model = replay(system, init, hist)
            bad = system.step(impl, model, op)
            res.transitions += 1
            if bad is not None:
                if len(res.violations) < max_violations:
                    res.violations.append((list(hist), op, bad[0], bad[1]))
                continue
            stack.append(hist + [op])
    res.max_depth = depth
    return res
