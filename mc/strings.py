"""E-STR: exhaustive strings over the token-kind alphabet and 1-edit fault neighbourhoods
(DESIGN.md section 4)."""
import itertools

from . import gram
from .runner import seed


def sigma(name, sd=None):
    N = gram.Names(seed() if sd is None else sd)
    base = ['\\', '{', '}', '[', ']', '$', '(', ')', N.sp, '\n', N.a, N.o]
    core = base + ['\\\\', '\\%', '\\[', '\\]', '\\' + N.x, '\\item', '\\begin{%s}' % N.e, '\\end{%s}' % N.e]
    full = core + ['*', '%', '&', '#', '\\(', '\\)', '\\begin', '\\end', '{%s}' % N.e,
                   '\\begin{equation}', '\\end{equation}', '\\begin{verbatim}', '\\end{verbatim}', '\\newcommand',
                   '\\end{%s%s}' % (N.e, N.e), '\\end{f}', '\\left(', '\\big|', '\\cup', '\\textbf', '\\section',
                   '\\def', '[%s]' % N.e, '\\begin{%s[}' % N.e, '\\end{%s[}' % N.e, '\\end{{%s}}' % N.e, '\r\n', '\x0c',
                   '\x00', '\x7f', '\r']
    mini = ['\\', '{', '}', '[', ']', '$', N.sp, '\n', N.a, '%', '\\' + N.x, '\\begin{%s}' % N.e, '\\end{%s}' % N.e]
    return {'full': full, 'core': core, 'min': mini}[name]


PLAN = {
    'quick': [('full', 3), ('core', 3), ('min', 4)],
    'mid': [('full', 3), ('core', 4)],
    'thorough': [('full', 3), ('core', 4), ('min', 5)],
    'deep': [('full', 4), ('core', 4), ('min', 5)],
    'tiny': [('core', 3)],
}


def shards(plan):
    out = []
    for name, n in PLAN[plan]:
        syms = sigma(name)
        k = len(syms)
        total = sum(k ** j for j in range(0, n + 1))
        if total < 20000:
            out.append({'layer': 'sigma', 'alpha': name, 'n': n, 'prefix': []})
        elif total < 400000:
            for i in range(k):
                out.append({'layer': 'sigma', 'alpha': name, 'n': n, 'prefix': [i]})
            out.append({'layer': 'sigma', 'alpha': name, 'n': 0, 'prefix': []})
        else:
            for i in range(k):
                for j in range(k):
                    out.append({'layer': 'sigma', 'alpha': name, 'n': n, 'prefix': [i, j]})
            out.append({'layer': 'sigma', 'alpha': name, 'n': 1, 'prefix': []})
    return out


def iter_strings(shard):
    """All concatenations of <= n symbols that start with the shard's prefix symbols (deduplicated within
    the shard).  A shard with an empty prefix enumerates everything up to n."""
    syms = sigma(shard['alpha'])
    n = shard['n']
    pre = [syms[i] for i in shard['prefix']]
    seen = set()
    head = ''.join(pre)
    for rest in range(0, n - len(pre) + 1):
        for t in itertools.product(syms, repeat=rest):
            s = head + ''.join(t)
            if s in seen:
                continue
            seen.add(s)
            yield s


HOSTILE = ['\\', '{', '}', '[', ']', '$', '%', ' ', '\n', 'a', '*', '&']
HOSTILE_TOKENS = ['%c\n', '\n\n', '{}', '\\x', '\r\n', '[]']      # multi-character fillers (tiny documents only)


def neighbourhood(text, prefixes=True, deletions=True, insertions=True, transpositions=True, hostile=HOSTILE):
    """1-edit neighbours of a document: (kind, string)"""
    n = len(text)
    seen = {text}
    if prefixes:
        for i in range(n):
            s = text[:i]
            if s not in seen:
                seen.add(s)
                yield 'prefix', s
    if deletions:
        for i in range(n):
            s = text[:i] + text[i + 1:]
            if s not in seen:
                seen.add(s)
                yield 'delete', s
    if transpositions:
        for i in range(n - 1):
            if text[i] != text[i + 1]:
                s = text[:i] + text[i + 1] + text[i] + text[i + 2:]
                if s not in seen:
                    seen.add(s)
                    yield 'transpose', s
    if insertions:
        for i in range(n + 1):
            for c in hostile:
                s = text[:i] + c + text[i:]
                if s not in seen:
                    seen.add(s)
                    yield 'insert', s


# nesting to depth 40 (C06 iii)
def nest_kinds(N):
    return [
        ('{', '}'), ('\\%s{' % N.x, '}'), ('\\%s[' % N.x, ']'), ('\\begin{%s}' % N.e, '\\end{%s}' % N.e),
        ('{\\item ', '}'), ('${', '}$'), ('\\[{', '}\\]'), ('\\begin{equation}', '\\end{equation}'),
        ('\\begin{%s}\\end{' % N.e, '}'), ('\\%s[{' % N.x, '}]'), ('\\textbf{', '}'),
    ]


def nests(depth, a, b):
    """(label, list of pieces) for container kinds a, b alternating - the concatenation of the pieces is the
    closed nest; cutting after any piece gives a prefix cut at a token boundary."""
    N = gram.Names(seed())
    kinds = nest_kinds(N)
    pieces, closers = [], []
    for d in range(depth):
        o, c = kinds[a if d % 2 == 0 else b]
        pieces.append(o)
        closers.append(c)
    pieces.append('z')
    pieces += list(reversed(closers))
    yield '%d/%d' % (a, b), pieces


FRESH = ['#', '\\', ' ', '{', '}', '\\(', '\\)', 'a', '$', '[', ']']


def fresh_char_strings(nmax=4):
    """every string of <= nmax symbols of FRESH that contains the placeholder '#'; in the k-th string the placeholder
    stands for a non-ASCII character that no earlier string contains (chr(0x100 + k), blanks skipped)"""
    k = 0
    for n in range(1, nmax + 1):
        for t in itertools.product(FRESH, repeat=n):
            if '#' not in t:
                continue
            ch = chr(0x100 + k)
            k += 1
            while ch.isspace() or not ch.isprintable():
                ch = chr(0x100 + k)
                k += 1
            yield ''.join(ch if x == '#' else x for x in t)
