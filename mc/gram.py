"""E-GRAM: exhaustive generator of the well-formed language L_wf (DESIGN.md section 3).

A document is a forest of *generator nodes*; the rendered string is the input to the parser and the
generator tree is the oracle.  Node forms (plain tuples, identical to the canonical tree form of
mc/canon.py before text coalescing, so one structure serves as tree, oracle and span source):

    ('T', text)                     text run (escaped symbols and \\\\ count as text)
    ('CM', text)                    comment, text = '%...' without its line break
    ('G{', items) / ('G[', items)   brace group (bare or argument) / bracket argument
    ('C', name, args, body)         command; body is non-empty only for \\item
    ('E', name, args, body)         named environment (ordinary, math or verbatim-like)
    ('M', begin, body)              $..$, $$..$$, \\(..\\), \\[..\\]

Rules R1-R12 are enforced while enumerating (they only ever remove documents)."""
import functools
import re

ATTACH = re.compile(r'[ \t]*[\n\r]?[ \t]*[\[{]')
MATH_END = {'$': '$', '$$': '$$', '\\(': '\\)', '\\[': '\\]'}

# seed-rotated representatives (DESIGN 2.6)
LETTERS = ['a', 'k', 'w', 'B']
OTHERS = ['.', ',', ';', '!', '7']
BLANKS = [' ', '\t']
CMDS = [('x', 'y'), ('foo', 'bar'), ('qq', 'zz'), ('Zed', 'Yo')]
ENVS = ['e', 'env', 'thm', 'boxed']


class Names:
    def __init__(self, seed=0):
        self.seed = seed
        self.a = LETTERS[seed % len(LETTERS)]
        self.b = LETTERS[(seed + 1) % len(LETTERS)]
        self.o = OTHERS[seed % len(OTHERS)]
        self.sp = BLANKS[(seed // 2) % len(BLANKS)]
        self.x, self.y = CMDS[seed % len(CMDS)]
        self.e = ENVS[seed % len(ENVS)]

    def describe(self):
        return {'letter': self.a, 'letter2': self.b, 'other': self.o, 'blank': self.sp,
                'cmd': [self.x, self.y], 'env': self.e}


# ---------------------------------------------------------------------------------------------
# rendering and spans

def text_of(node):
    k = node[0]
    if k == 'T' or k == 'CM':
        return node[1]
    if k == 'G{':
        return '{' + render(node[1]) + '}'
    if k == 'G[':
        return '[' + render(node[1]) + ']'
    if k == 'C':
        return '\\' + node[1] + ''.join(text_of(a) for a in node[2]) + render(node[3])
    if k == 'E':
        return '\\begin{' + node[1] + '}' + ''.join(text_of(a) for a in node[2]) + render(node[3]) + \
            '\\end{' + node[1] + '}'
    if k == 'M':
        return node[1] + render(node[2]) + MATH_END[node[1]]
    raise ValueError(node)


def render(items):
    return ''.join(text_of(n) for n in items)


def _group_layout(a, off, gpath):
    """annotated argument group at offset off with path gpath (its body is laid out once)"""
    d = {'n': a, 's': off, 'path': gpath, 'bs': off + 1}
    d['body'] = layout(a[1], off + 1, gpath + ('b',))
    d['be'] = d['bs'] + len(render(a[1]))
    d['e'] = d['be'] + 1
    return d


def layout(items, off=0, path=()):
    """Annotated copy of a forest: list of dicts with exact spans.
    keys: n (node), s, e, path, args (list of annotated groups), body (annotated list),
          name_spans (list of (s,e) where the name is spelled), bs, be (body / inner span)."""
    out = []
    for i, n in enumerate(items):
        p = path + (i,)
        k = n[0]
        d = {'n': n, 's': off, 'path': p}
        if k in ('T', 'CM'):
            off += len(n[1])
        elif k in ('G{', 'G['):
            d['bs'] = off + 1
            d['body'] = layout(n[1], off + 1, p + ('b',))
            off = d['bs'] + len(render(n[1]))
            d['be'] = off
            off += 1
        elif k == 'C':
            d['name_spans'] = [(off + 1, off + 1 + len(n[1]))]
            off += 1 + len(n[1])
            d['args'] = []
            for j, a in enumerate(n[2]):
                ad = _group_layout(a, off, p + ('a', j))
                d['args'].append(ad)
                off = ad['e']
            d['hs'] = off      # end of head (name + args)
            d['bs'] = off
            d['body'] = layout(n[3], off, p + ('b',))
            off += len(render(n[3]))
            d['be'] = off
        elif k == 'E':
            b = len('\\begin{')
            d['name_spans'] = [(off + b, off + b + len(n[1]))]
            off += b + len(n[1]) + 1
            d['args'] = []
            for j, a in enumerate(n[2]):
                ad = _group_layout(a, off, p + ('a', j))
                d['args'].append(ad)
                off = ad['e']
            d['hs'] = off
            d['bs'] = off
            d['body'] = layout(n[3], off, p + ('b',))
            off += len(render(n[3]))
            d['be'] = off
            d['name_spans'].append((off + len('\\end{'), off + len('\\end{') + len(n[1])))
            off += len('\\end{') + len(n[1]) + 1
        elif k == 'M':
            d['bs'] = off + len(n[1])
            d['body'] = layout(n[2], d['bs'], p + ('b',))
            off = d['bs'] + len(render(n[2]))
            d['be'] = off
            off += len(MATH_END[n[1]])
        else:
            raise ValueError(n)
        d['e'] = off
        out.append(d)
    return out


def walk_all(ann):
    """Pre-order iteration over every annotated node: node, then its argument groups (each followed by
    its contents), then its body."""
    for d in ann:
        yield d
        k = d['n'][0]
        if k in ('C', 'E'):
            for a in d['args']:
                yield a
                yield from walk_all(a['body'])
            yield from walk_all(d['body'])
        elif k in ('G{', 'G[', 'M'):
            yield from walk_all(d['body'])


def coalesce(items):
    """Canonical comparison form: merge adjacent text, drop empty text, recursively."""
    out = []
    for n in items:
        k = n[0]
        if k == 'T':
            if n[1] == '':
                continue
            if out and out[-1][0] == 'T':
                out[-1] = ('T', out[-1][1] + n[1])
            else:
                out.append(n)
        elif k == 'CM':
            out.append(n)
        elif k in ('G{', 'G['):
            out.append((k, coalesce(n[1])))
        elif k in ('C', 'E'):
            out.append((k, n[1], tuple((a[0], coalesce(a[1])) if a[0] in ('G{', 'G[') else a for a in n[2]),
                        coalesce(n[3])))
        elif k == 'M':
            out.append((k, n[1], coalesce(n[2])))
        else:
            out.append(n)
    return tuple(out)


def count_nodes(items):
    c = 0
    for n in items:
        k = n[0]
        c += 1
        if k in ('G{', 'G['):
            c += count_nodes(n[1])
        elif k in ('C', 'E'):
            for a in n[2]:
                c += count_nodes(a[1])
            c += count_nodes(n[3])
        elif k == 'M':
            c += count_nodes(n[2])
    return c


# ---------------------------------------------------------------------------------------------
# contexts
#
# A context is (kind, inmath, special, verb_ok):
#   kind     top | env | item | brace | bracket | group | m$ | m$$ | m( | m[ | meq | special
#   inmath   somewhere below a math region (no \item, R6)
#   special  inside a \newcommand-style definition (bare \begin / \end allowed, R9)
#   verb_ok  top level or nested in named environments only (verbatim allowed, R8)

TOP = ('top', False, False, True)


def sub(ctx, kind):
    _, inmath, special, verb_ok = ctx
    if kind in ('m$', 'm$$', 'm(', 'm[', 'meq'):
        return (kind, True, False, False)
    if kind == 'env':
        return (kind, inmath, False, verb_ok and not special)
    if kind == 'item':
        return (kind, inmath, False, False)
    if kind == 'special':
        return (kind, inmath, True, False)
    return (kind, inmath, special, False)      # brace, bracket, group


# ---------------------------------------------------------------------------------------------
# alphabets

class Alphabet:
    """texts / cmd0 / containers available, as functions of the context."""

    def __init__(self, name, names, texts, containers, cmd0=True, comment=True, star=True, eof_comment=True,
                 fixed0=False, cr_comment=False):
        self.cr_comment = cr_comment
        self.name, self.N = name, names
        self.texts, self.cont = texts, containers
        self.cmd0, self.comment, self.star, self.eof_comment, self.fixed0 = cmd0, comment, star, eof_comment, fixed0
        self._forests = functools.lru_cache(maxsize=None)(self._forests_impl)
        self._trees = functools.lru_cache(maxsize=None)(self._trees_impl)

    # an element is (text, items, kind); kind drives the adjacency rules
    def atoms(self, ctx):
        kind = ctx[0]
        out = []
        for t in self.texts:
            if kind == 'bracket' and ']' in t:
                continue                                   # R5
            out.append((t, (('T', t),), 'text'))
        N = self.N
        if self.comment:
            out.append(('%c\n', (('CM', '%c'), ('T', '\n')), 'comment'))
            if self.cr_comment:
                out.append(('%c\r', (('CM', '%c'), ('T', '\r')), 'comment'))      # a comment ended by a bare CR
            if kind == 'top' and self.eof_comment:
                out.append(('%c', (('CM', '%c'),), 'eofcomment'))          # R4: only at end of input
        if self.cmd0:
            out.append(('\\' + N.x, (('C', N.x, (), ()),), 'cmd0'))
            if self.star:
                out.append(('\\' + N.y + '*', (('C', N.y + '*', (), ()),), 'cmd0'))
            if self.fixed0:
                out.append(('\\noindent', (('C', 'noindent', (), ()),), 'cmd0'))
        if ctx[2]:      # special mode: bare \begin{e} / \end{e} are ordinary commands (R9)
            for w in ('begin', 'end'):
                out.append(('\\%s{%s}' % (w, N.e), (('C', w, (('G{', (('T', N.e),)),), ()),), 'cmdargs'))
        return out

    def containers(self, ctx):
        kind, inmath, special, verb_ok = ctx
        N = self.N
        cs = []
        want = self.cont

        def cmd(label, name, shape):
            # shape: string over '[' and '{' : one hole per argument
            if label not in want:
                return
            holes = [sub(ctx, 'bracket' if s == '[' else 'brace') for s in shape]
            if special:
                holes = [sub(ctx, 'bracket' if s == '[' else 'brace') for s in shape]

            def build(fs, name=name, shape=shape):
                args = tuple((('G[' if s == '[' else 'G{'), f[1]) for s, f in zip(shape, fs))
                txt = '\\' + name + ''.join(('[%s]' if s == '[' else '{%s}') % f[0] for s, f in zip(shape, fs))
                return txt, (('C', name, args, ()),)
            cs.append((label, 'cmdargs', holes, build, None))
        cmd('cmd{}', N.x, '{')
        cmd('cmd[]', N.x, '[')
        cmd('cmd[]{}', N.x, '[{')
        cmd('cmd{}{}', N.x, '{{')
        cmd('cmd[][]', N.x, '[[')
        cmd('section{}', 'section', '{')
        cmd('section[]{}', 'section', '[{')
        cmd('textbf{}', 'textbf', '{')
        cmd('label{}', 'label', '{')
        if 'group' in want:
            cs.append(('group', 'group', [sub(ctx, 'group')],
                       lambda fs: ('{%s}' % fs[0][0], (('G{', fs[0][1]),)), None))
        if special:
            return cs                                         # R9: nothing else below a definition
        e = N.e

        def env(label, shape):
            if label not in want:
                return
            holes = [sub(ctx, 'bracket' if s == '[' else 'brace') for s in shape] + [sub(ctx, 'env')]

            def build(fs, shape=shape):
                args = tuple((('G[' if s == '[' else 'G{'), f[1]) for s, f in zip(shape, fs))
                txt = '\\begin{%s}' % e + ''.join(('[%s]' if s == '[' else '{%s}') % f[0] for s, f in zip(shape, fs)) \
                    + fs[-1][0] + '\\end{%s}' % e
                return txt, (('E', e, args, fs[-1][1]),)
            cs.append((label, 'env', holes, build, ('head', len(shape))))
        env('env', '')
        env('env{}', '{')
        env('env[]{}', '[{')
        if not inmath and kind not in ('bracket', 'item'):          # R6
            if 'item' in want:
                cs.append(('item', 'item', [sub(ctx, 'item')],
                           lambda fs: ('\\item' + fs[0][0], (('C', 'item', (), fs[0][1]),)), ('item0', 0)))
            if 'item[]' in want:
                cs.append(('item[]', 'item', [sub(ctx, 'bracket'), sub(ctx, 'item')],
                           lambda fs: ('\\item[%s]%s' % (fs[0][0], fs[1][0]),
                                       (('C', 'item', (('G[', fs[0][1]),), fs[1][1]),)), ('head', 1)))
        for label, mk, beg in (('m$', 'm$', '$'), ('m$$', 'm$$', '$$'), ('m(', 'm(', '\\('), ('m[', 'm[', '\\[')):
            if label in want:
                cs.append((label, 'math$' if beg in ('$', '$$') else 'math', [sub(ctx, mk)],
                           (lambda fs, beg=beg: (beg + fs[0][0] + MATH_END[beg], (('M', beg, fs[0][1]),))),
                           ('math', beg)))
        for label, mname in (('meq', 'equation'), ('malign*', 'align*')):
            if label in want:
                cs.append((label, 'env', [sub(ctx, 'meq')],
                           (lambda fs, mname=mname: ('\\begin{%s}%s\\end{%s}' % (mname, fs[0][0], mname),
                                                     (('E', mname, (), fs[0][1]),))), ('head', 0)))
        if 'defn' in want and not inmath and kind != 'item':
            for definer, digit, default in (('newcommand', None, None), ('renewcommand', '2', None),
                                            ('providecommand', None, None), ('newcommand', '2', N.a)):
                def build(fs, definer=definer, digit=digit, default=default):
                    args = [('G{', (('C', N.x, (), ()),))]
                    txt = '\\%s{\\%s}' % (definer, N.x)
                    if digit:
                        args.append(('G[', (('T', digit),)))
                        txt += '[%s]' % digit
                    if default:
                        args.append(('G[', (('T', default),)))      # \newcommand{\x}[2][default]{body}
                        txt += '[%s]' % default
                    args.append(('G{', fs[0][1]))
                    txt += '{%s}' % fs[0][0]
                    return txt, (('C', definer, tuple(args), ()),)
                cs.append(('defn:' + definer + ('+default' if default else ''), 'cmdargs', [sub(ctx, 'special')], build, None))
        return cs

    def verbatims(self, ctx):
        if 'verb' not in self.cont or not ctx[3]:
            return []
        out = []
        # every built-in name, each with a body that cannot be read as ordinary LaTeX without showing
        # (two bodies also quote a closer whose name merely starts with the environment's own name)
        for vname, body in (('Verbatim', ' $ '), ('listing', '\\end{listings}\\' + self.N.x + '{'), ('verbatim', 'a}\n%c\n'),
                            ('lstlisting', '\n'), ('verbatimtab', '$' + self.N.a),
                            ('verbatim', '\\end{verbatimtab}\\' + self.N.x + ' {')):
            out.append(('\\begin{%s}%s\\end{%s}' % (vname, body, vname),
                        (('E', vname, (), (('T', body),)),), 'env'))
        return out

    # -- enumeration --------------------------------------------------------------------------
    def forests(self, ctx, n):
        return self._forests(ctx, n)

    def trees(self, ctx, k):
        return self._trees(ctx, k)

    def _forests_impl(self, ctx, n):
        """all forests with exactly n nodes: tuples (text, items, first_elem_kind, last_elem_kind)"""
        if n == 0:
            return (('', (), None, None),)
        out = []
        for k in range(1, n + 1):
            rests = self.forests(ctx, n - k)
            for tr in self.trees(ctx, k):
                for rest in rests:
                    if not compatible(tr, rest):
                        continue
                    out.append((tr[0] + rest[0], tr[1] + rest[1], tr[2], rest[3] if rest[3] is not None else tr[2]))
        return tuple(out)

    def _trees_impl(self, ctx, k):
        out = []
        if k == 1:
            out += self.atoms(ctx)
            out += self.verbatims(ctx)
        for label, kind, holes, build, headinfo in self.containers(ctx):
            if k - 1 < 0:
                continue
            for dist in distributions(k - 1, len(holes)):
                self._fill(holes, dist, 0, [], label, kind, build, headinfo, out)
        return tuple(out)

    def _fill(self, holes, dist, i, acc, label, kind, build, headinfo, out):
        if i == len(holes):
            txt, items = build(acc)
            out.append((txt, items, kind))
            return
        hctx = holes[i]
        for f in self.forests(hctx, dist[i]):
            if not hole_ok(hctx, f, headinfo, i, len(holes)):
                continue
            acc.append(f)
            self._fill(holes, dist, i + 1, acc, label, kind, build, headinfo, out)
            acc.pop()


def distributions(total, parts):
    if parts == 0:
        if total == 0:
            yield ()
        return
    if parts == 1:
        yield (total,)
        return
    for first in range(total + 1):
        for rest in distributions(total - first, parts - 1):
            yield (first,) + rest


def compatible(left, rest):
    """May element `left` be directly followed by forest `rest`?  (R1, R2, R3, R4, R6, R7)"""
    lk = left[2]
    rt = rest[0]
    rk = rest[2]
    if rk is None:
        return True
    if lk == 'eofcomment':
        return False                                        # R4
    if lk == 'item':
        return rk == 'item'                                 # R6: an item owns its tail
    if lk == 'text' and rk == 'text':
        return False                                        # R3
    if lk == 'cmd0' and (rt[0].isalpha() or rt[0] == '*'):
        return False                                        # R1
    if lk in ('cmd0', 'cmdargs') and ATTACH.match(rt):
        return False                                        # R2
    # after \end{name} a brace group is an ordinary group and a bracket is ordinary text: well-formed (no rule)
    if lk == 'math$' and rt[0] == '$':
        return False                                        # R7
    if rk == 'math$' and left[0].endswith('$') and not left[0].endswith('\\$'):
        return False                                        # R7
    return True


def hole_ok(hctx, f, headinfo, i, nholes):
    """May forest `f` fill hole i (context hctx) of a container?"""
    txt, items, first, last = f
    kind = hctx[0]
    if headinfo is not None and i == nholes - 1:
        hk, hv = headinfo
        if hk in ('head', 'item0'):
            if txt and ATTACH.match(txt):
                return False                                # R2: body directly after \begin{e}.. / \item..
            if hk == 'item0' and txt and (txt[0].isalpha() or txt[0] == '*'):
                return False                                # R1: \itema
        if hk == 'math':
            beg = hv
            if beg == '$' and not txt:
                return False                                # R7: $..$ is non-empty
            if beg in ('$', '$$'):
                if txt.startswith('$') or (txt.endswith('$') and not txt.endswith('\\$')):
                    return False                            # R7
                if any(n[0] == 'M' and n[1] == beg for n in items):
                    return False                            # R7: same-kind region as direct child
    if kind == 'item' and any(n[0] == 'C' and n[1] == 'item' for n in items):
        return False                                        # R6: no item directly in an item body
    if kind == 'bracket' and last == 'item':
        return False
    return True


# ---------------------------------------------------------------------------------------------
# the two standard alphabets (DESIGN section 3)

FULL_CONT = {'cmd{}', 'cmd[]', 'cmd[]{}', 'cmd{}{}', 'cmd[][]', 'section{}', 'section[]{}', 'textbf{}', 'group',
             'env', 'env{}', 'item', 'item[]', 'm$', 'm$$', 'm(', 'm[', 'meq', 'verb', 'defn'}
CORE_CONT = {'cmd{}', 'cmd[]', 'group', 'env', 'item', 'm$', 'm[', 'meq'}


def full(seed=0):
    N = Names(seed)
    texts = [N.a, N.sp, '\n', N.o, N.a + N.sp + N.b, '\n\n', N.sp + N.a + N.sp, '\\%', '\\$', '\\\\', '(', '[', ']']
    return Alphabet('A_full', N, texts, FULL_CONT, fixed0=True)


def core(seed=0):
    N = Names(seed)
    return Alphabet('A_core', N, [N.a, N.sp, '\n', '['], CORE_CONT, star=False, eof_comment=False)


def documents(alpha, n):
    """All top-level documents with exactly n nodes: (text, items)."""
    for f in alpha.forests(TOP, n):
        yield f[0], f[1]


def tuplify(x):
    """JSON round trip turns tuples into lists; restore the tuple form."""
    if isinstance(x, list):
        return tuple(tuplify(i) for i in x)
    return x
