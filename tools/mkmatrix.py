#!/usr/bin/env python3
"""tools/mkmatrix.py [mutant-run logs...] - fold the verdicts of `./check --mutants` logs into seeded/*/meta.json
(caught_by) and print the 'seeded' table of DESIGN 10.7 (markdown) on stdout."""
import glob, json, os, re, sys
VERIF = os.path.dirname(os.path.dirname(os.path.abspath(__file__)))
for log in sys.argv[1:]:
    for line in open(log, errors='replace'):
        m = re.match(r'seeded/(C\d\d-[A-Z])\s+K\s+caught by (\S+)', line)
        if not m:
            continue
        mp = os.path.join(VERIF, 'seeded', m.group(1), 'meta.json')
        meta = json.load(open(mp))
        cb = sorted(set(meta.get('caught_by') or []) | set(m.group(2).split(',')))
        if cb != meta.get('caught_by'):
            meta['caught_by'] = cb
            json.dump(meta, open(mp, 'w'), indent=1)
print('| seeded | file | function | reported by |')
print('|---|---|---|---|')
for d in sorted(glob.glob(os.path.join(VERIF, 'seeded', '*')) + glob.glob(os.path.join(VERIF, 'seeded-retired', 'C*')),
                key=os.path.basename):
    meta = json.load(open(os.path.join(d, 'meta.json')))
    diff = open(os.path.join(d, 'patch.diff')).read()
    files = sorted(set(os.path.basename(f) for f in re.findall(r'^\+\+\+ b/TexSoup/(\S+)', diff, re.M)))
    funcs = []
    for f in re.findall(r'^@@ .*? @@ (?:def|class) (\w+)', diff, re.M):
        if f not in funcs:
            funcs.append(f)
    print('| %s | %s | %s | %s |' % (os.path.basename(d), ', '.join(files), ', '.join(funcs[:2]) or '-',
                                     (', '.join(meta.get('caught_by') or []) or '**not yet run**') + (' (retired)' if 'seeded-retired' in d else '')))
