#!/venv/bin/python
"""Verify and import seeded defects delivered by sub-agents (/tmp/wt/<ID>/out/{A,B}.diff + demos).
Usage: tools/import_seed.py C01 C02 ...   - confirms in a scratch copy: demo passes on clean tree, patch applies,
the repository's test-suite stays green with the patch, demo fails with the patch.  Keeps only confirmed ones."""
import json, os, re, shutil, subprocess, sys, tempfile
PY = '/venv/bin/python'
VERIF = os.path.dirname(os.path.dirname(os.path.abspath(__file__)))

def run(cmd, **kw):
    return subprocess.run(cmd, capture_output=True, text=True, **kw)

def main(ids):
    for wid in ids:
        out = '/tmp/wt/%s/out' % wid
        pid = 'C' + wid[1:]
        wave2 = wid[0] == 'D'
        wave3 = wid[0] == 'E'
        wave4 = wid[0] == 'F'
        wave5 = wid[0] == 'G'
        wave6 = wid[0] == 'H'
        for letter in 'AB':
            diff = os.path.join(out, letter + '.diff'); demo = os.path.join(out, letter + '_demo.py')
            if not (os.path.exists(diff) and os.path.exists(demo)):
                print(pid, letter, 'MISSING'); continue
            base = tempfile.mkdtemp(prefix='seedchk-', dir='/tmp'); dst = os.path.join(base, 'repo')
            try:
                run(['rsync', '-a', '--exclude', '.git', '--exclude', '__pycache__', '/repo/', dst + '/'])
                src = open(demo).read().replace("'/tmp/wt/%s'" % wid, "__import__('os').environ.get('VERIF_REPO', '/repo')") \
                                       .replace('"/tmp/wt/%s"' % wid, "__import__('os').environ.get('VERIF_REPO', '/repo')")
                src = '\n'.join(l for l in src.splitlines() if not (l.startswith('assert') and '__file__' in l)) + '\n'
                if '/tmp/wt/' in src:
                    print(pid, letter, 'demo still refers to /tmp/wt'); continue
                dpath = os.path.join(base, 'demo.py'); open(dpath, 'w').write(src)
                env = dict(os.environ, VERIF_REPO=dst, PYTHONDONTWRITEBYTECODE='1')
                r0 = run([PY, dpath], env=env, cwd=base)
                ra = run(['patch', '-p1', '-s', '-f', '-i', diff], cwd=dst)
                if ra.returncode: print(pid, letter, 'PATCH FAILED', ra.stdout[-200:]); continue
                rt = run([PY, '-m', 'pytest', '-q', '-p', 'no:cacheprovider', '--no-cov'], cwd=dst, env={k: v for k, v in env.items() if k != 'VERIF_REPO'})
                tail = (rt.stdout.strip().splitlines() or [''])[-1]
                r1 = run([PY, dpath], env=env, cwd=base)
                ok = r0.returncode == 0 and rt.returncode == 0 and '164 passed' in tail and r1.returncode == 1
                print(pid, letter, 'clean-demo rc=%d tests=%r mutated-demo rc=%d -> %s' % (r0.returncode, tail, r1.returncode, 'KEEP' if ok else 'REJECT'))
                if not ok:
                    continue
                d = os.path.join(VERIF, 'seeded', '%s-%s' % (pid, ({'A': 'C', 'B': 'D'}[letter] if wave2 else ({'A': 'E', 'B': 'F'}[letter] if wave3 else ({'A': 'G', 'B': 'H'}[letter] if wave4 else ({'A': 'I', 'B': 'J'}[letter] if wave5 else ({'A': 'K', 'B': 'L'}[letter] if wave6 else letter))))))); os.makedirs(d, exist_ok=True)
                shutil.copy(diff, os.path.join(d, 'patch.diff')); open(os.path.join(d, 'demo.py'), 'w').write(src)
                notes = open(os.path.join(out, 'NOTES.md')).read() if os.path.exists(os.path.join(out, 'NOTES.md')) else ''
                open(os.path.join(d, 'NOTES.md'), 'w').write(notes)
                meta = {'breaks': [pid], 'origin': 'independent sub-agent given only the property text and a scratch worktree',
                        'needs_to_manifest': 'see NOTES.md, section for change %s' % letter,
                        'verified': {'demo_on_clean_tree_rc': r0.returncode, 'test_suite_with_patch': tail,
                                     'demo_with_patch_rc': r1.returncode, 'demo_output_with_patch': r1.stdout[-600:],
                                     'commands': ['rsync /repo -> scratch', 'patch -p1 < patch.diff',
                                                  '/venv/bin/python -m pytest -q -p no:cacheprovider --no-cov',
                                                  'VERIF_REPO=<scratch> /venv/bin/python demo.py']},
                        'caught_by': []}
                json.dump(meta, open(os.path.join(d, 'meta.json'), 'w'), indent=1)
            finally:
                shutil.rmtree(base, ignore_errors=True)
main(sys.argv[1:])
